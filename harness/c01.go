package main

import (
	"context"
	"encoding/json"
	"fmt"
	"runtime"
	"strings"
	"unicode/utf8"

	"go.lsp.dev/protocol"

	"github.com/juev/hledger-lsp/internal/server"
)

func init() { runners["C01"] = runC01 }

type c01Change struct {
	Range *[4]uint32 `json:"range,omitempty"` // sl sc el ec; nil = range-less
	Text  string     `json:"text"`
	Hex   bool       `json:"hex,omitempty"` // Text is hex (invalid UTF-8 payloads)
}
type c01Event struct {
	Op      string      `json:"op"` // open | change | close
	URI     int         `json:"uri"`
	Text    string      `json:"text,omitempty"`
	Hex     bool        `json:"hex,omitempty"`
	Changes []c01Change `json:"changes,omitempty"`
}
type c01Case struct {
	Events []c01Event `json:"events"`
}

func c01URI(i int) protocol.DocumentURI {
	return protocol.DocumentURI(fmt.Sprintf("file:///verif/doc%d.journal", i))
}

var c01Words = []string{"food", "rent", "a:b", "assets:cash", "expenses:food", "Ünïcode", "кошка", "日本語", "😀", "x😀y", "é", "$", "USD", "10", "-5.25", ";", "note", "  ", "\t"}

func c01Line(r *rng) string {
	switch r.intn(8) {
	case 0:
		return fmt.Sprintf("2024-%02d-%02d %s", r.rangeInt(1, 12), r.rangeInt(1, 28), pick(r, []string{"grocery store", "Кафе", "café ☕", "lunch 😀 out", "shop | note"}))
	case 1, 2:
		return fmt.Sprintf("    %s  %d %s", pick(r, []string{"assets:cash", "expenses:food", "активы:банк", "expenses:😀fun", "a:b c"}), r.rangeInt(-50, 50), pick(r, []string{"USD", "EUR", "₽"}))
	case 3:
		return "    " + pick(r, []string{"assets:cash", "equity:open"})
	case 4:
		return ""
	case 5:
		return "; " + pick(r, c01Words) + " " + pick(r, c01Words)
	default:
		n := r.rangeInt(1, 4)
		var w []string
		for i := 0; i < n; i++ {
			w = append(w, pick(r, c01Words))
		}
		return strings.Join(w, " ")
	}
}

func c01Doc(r *rng, st *stats) string {
	eol := "\n"
	if r.chance(35) {
		eol = "\r\n"
		st.count("doc:crlf")
	} else {
		st.count("doc:lf")
	}
	n := r.intn(7)
	if n == 0 {
		st.count("doc:empty")
		return ""
	}
	var sb strings.Builder
	for i := 0; i < n; i++ {
		sb.WriteString(c01Line(r))
		if i < n-1 || r.chance(70) {
			sb.WriteString(eol)
		}
	}
	return sb.String()
}

func utf16Len(s string) int {
	n := 0
	for _, r := range s {
		if r >= 0x10000 {
			n += 2
		} else {
			n++
		}
	}
	return n
}

// c01Pos draws a position relative to text (generation aid only; the verdict never uses it).
func c01Pos(r *rng, text string, st *stats) (uint32, uint32) {
	lines := strings.Split(text, "\n")
	k := r.intn(100)
	switch {
	case k < 3:
		st.count("pos:0:0")
		return 0, 0
	case k < 14:
		st.count("pos:line-past-end")
		return uint32(len(lines) + r.intn(3)), uint32(r.intn(4))
	case k < 17:
		st.count("pos:huge")
		return uint32(r.intn(len(lines))), 4294967295
	}
	l := r.intn(len(lines))
	line := strings.TrimSuffix(lines[l], "\r")
	w := utf16Len(line)
	switch {
	case k < 35:
		st.count("pos:line-start")
		return uint32(l), 0
	case k < 55:
		st.count("pos:line-end")
		return uint32(l), uint32(w)
	case k < 70:
		st.count("pos:past-line-end")
		return uint32(l), uint32(w + r.rangeInt(1, 6))
	case k < 73:
		// strictly inside a surrogate pair if the line has a non-BMP character (malformed stream)
		col := 0
		for _, c := range line {
			if c >= 0x10000 {
				st.count("pos:inside-surrogate")
				return uint32(l), uint32(col + 1)
			}
			col++
		}
		fallthrough
	default:
		// a code-point boundary inside the line
		var cols []int
		col := 0
		for _, c := range line {
			cols = append(cols, col)
			if c >= 0x10000 {
				col += 2
			} else {
				col++
			}
		}
		cols = append(cols, col)
		st.count("pos:inside-line")
		return uint32(l), uint32(pick(r, cols))
	}
}

var c01Inserts = []string{"", "", "X", "é", "😀", "\n", "\r\n", "ab\ncd", "    expenses:food  10 USD\n", "2024-02-02 new\n", "я", "\n\n", " ", "日本"}

func c01Gen(r *rng, st *stats) (c01Case, bool) {
	var c c01Case
	open := map[int]string{}
	nontrivial := false
	n := r.rangeInt(2, 12)
	for i := 0; i < n; i++ {
		u := r.intn(3)
		if r.chance(60) {
			u = 0
		}
		text, isOpen := open[u]
		switch {
		case !isOpen && r.chance(85), isOpen && r.chance(4):
			t := c01Doc(r, st)
			ev := c01Event{Op: "open", URI: u, Text: t}
			if r.chance(1) {
				ev.Text = "ab\xffcd\n\xc3"
				st.count("doc:invalid-utf8")
			}
			open[u] = ev.Text
			c.Events = append(c.Events, ev)
			st.count("op:open")
		case isOpen && r.chance(8):
			c.Events = append(c.Events, c01Event{Op: "close", URI: u})
			delete(open, u)
			st.count("op:close")
		default:
			ev := c01Event{Op: "change", URI: u}
			k := 1
			if r.chance(35) {
				k = r.rangeInt(2, 4)
			}
			for j := 0; j < k; j++ {
				ins := pick(r, c01Inserts)
				if r.chance(12) {
					ins = c01Line(r) + "\n"
				}
				if r.chance(1) {
					ins = "\xe2\x82"
					st.count("text:invalid-utf8")
				}
				if r.chance(12) {
					text = c01Doc(r, st)
					ev.Changes = append(ev.Changes, c01Change{Text: text})
					st.count("change:rangeless")
					continue
				}
				l1, c1 := c01Pos(r, text, st)
				l2, c2 := l1, c1
				if r.chance(60) {
					l2, c2 = c01Pos(r, text, st)
				}
				if l2 < l1 || (l2 == l1 && c2 < c1) {
					if !r.chance(5) {
						l1, c1, l2, c2 = l2, c2, l1, c1
					} else {
						st.count("change:reversed")
					}
				}
				if strings.ContainsAny(ins, "\n") || l1 != l2 {
					nontrivial = true
				}
				ev.Changes = append(ev.Changes, c01Change{Range: &[4]uint32{l1, c1, l2, c2}, Text: ins})
				st.count("change:ranged")
				text = genApply(text, l1, c1, l2, c2, ins)
			}
			if !isOpen {
				st.count("op:change-unopened")
			}
			c.Events = append(c.Events, ev)
			st.count("op:change")
			if isOpen {
				open[u] = text
			}
		}
	}
	return c, nontrivial
}

// wire JSON of a didChange notification: an absent range is really absent on the wire.
func c01ChangeJSON(u protocol.DocumentURI, version int, chs []c01Change) string {
	var parts []string
	for _, ch := range chs {
		txt, _ := json.Marshal(ch.Text)
		if ch.Range == nil {
			parts = append(parts, fmt.Sprintf(`{"text":%s}`, txt))
		} else {
			r := ch.Range
			parts = append(parts, fmt.Sprintf(`{"range":{"start":{"line":%d,"character":%d},"end":{"line":%d,"character":%d}},"text":%s}`, r[0], r[1], r[2], r[3], txt))
		}
	}
	ub, _ := json.Marshal(string(u))
	return fmt.Sprintf(`{"textDocument":{"uri":%s,"version":%d},"contentChanges":[%s]}`, ub, version, strings.Join(parts, ","))
}

func gChange(ch c01Change) string {
	r := "None"
	if ch.Range != nil {
		r = fmt.Sprintf("(Some (mkRange %d %d %d %d))", ch.Range[0], ch.Range[1], ch.Range[2], ch.Range[3])
	}
	return fmt.Sprintf("(mkChange %s %s)", r, gBytes(ch.Text))
}

func c01Snap(srv *server.Server) string {
	var items []string
	for u := 0; u < 3; u++ {
		t, ok := srv.GetDocument(c01URI(u))
		items = append(items, gOpt(ok, gBytes(t)))
	}
	return gList(items)
}

// answers computed from a server for one open document; used to compare the history server
// with a fresh server that was only given the final text.
func c01Answers(srv *server.Server, u protocol.DocumentURI, text string) string {
	ctx := context.Background()
	td := protocol.TextDocumentIdentifier{URI: u}
	var out []interface{}
	sym, _ := srv.DocumentSymbol(ctx, &protocol.DocumentSymbolParams{TextDocument: td})
	out = append(out, sym)
	fold, _ := srv.FoldingRanges(ctx, &protocol.FoldingRangeParams{TextDocumentPositionParams: protocol.TextDocumentPositionParams{TextDocument: td}})
	out = append(out, fold)
	sem, _ := srv.SemanticTokensFull(ctx, &protocol.SemanticTokensParams{TextDocument: td})
	if sem != nil {
		out = append(out, sem.Data)
	}
	fm, _ := srv.Format(ctx, &protocol.DocumentFormattingParams{TextDocument: td})
	out = append(out, fm)
	links, _ := srv.DocumentLink(ctx, &protocol.DocumentLinkParams{TextDocument: td})
	out = append(out, links)
	lines := strings.Split(text, "\n")
	for l := 0; l < len(lines) && l < 6; l++ {
		for _, ch := range []uint32{0, 5, 12} {
			pos := protocol.TextDocumentPositionParams{TextDocument: td, Position: protocol.Position{Line: uint32(l), Character: ch}}
			hv, _ := srv.Hover(ctx, &protocol.HoverParams{TextDocumentPositionParams: pos})
			out = append(out, hv)
			cp, _ := srv.Completion(ctx, &protocol.CompletionParams{TextDocumentPositionParams: pos})
			if cp != nil {
				var labels []string
				for _, it := range cp.Items {
					if it.Kind != protocol.CompletionItemKindConstant { // date items depend on the clock
						labels = append(labels, it.Label)
					}
				}
				out = append(out, labels)
			}
			df, _ := srv.Definition(ctx, &protocol.DefinitionParams{TextDocumentPositionParams: pos})
			out = append(out, df)
			rf, _ := srv.References(ctx, &protocol.ReferenceParams{TextDocumentPositionParams: pos, Context: protocol.ReferenceContext{IncludeDeclaration: true}})
			out = append(out, rf)
		}
	}
	b, _ := json.Marshal(out)
	return string(b)
}

func newTestServer() (*server.Server, *stubClient, int) {
	srv := server.NewServer()
	stub := &stubClient{}
	srv.SetClient(stub)
	_, _ = srv.Initialize(context.Background(), &protocol.InitializeParams{})
	return srv, stub, runtime.NumGoroutine()
}

func c01Run(c c01Case, st *stats) (string, error) {
	srv, _, base := newTestServer()
	ctx := context.Background()
	var evs, snaps []string
	version := 1
	for _, e := range c.Events {
		u := c01URI(e.URI)
		switch e.Op {
		case "open":
			if err := srv.DidOpen(ctx, &protocol.DidOpenTextDocumentParams{TextDocument: protocol.TextDocumentItem{URI: u, Text: e.Text, Version: 1}}); err != nil {
				return "", err
			}
			evs = append(evs, fmt.Sprintf("(Open %d %s)", e.URI, gBytes(e.Text)))
		case "change":
			version++
			var params protocol.DidChangeTextDocumentParams
			js := c01ChangeJSON(u, version, e.Changes)
			if err := json.Unmarshal([]byte(js), &params); err != nil {
				return "", fmt.Errorf("decode %s: %v", js, err)
			}
			if err := srv.DidChange(ctx, &params); err != nil {
				return "", err
			}
			var chs []string
			for i, ch := range e.Changes {
				// the JSON encoder replaces invalid UTF-8 by U+FFFD: give the model what was decoded
				ch.Text = params.ContentChanges[i].Text
				chs = append(chs, gChange(ch))
			}
			evs = append(evs, fmt.Sprintf("(Change %d %s)", e.URI, gList(chs)))
		case "close":
			if err := srv.DidClose(ctx, &protocol.DidCloseTextDocumentParams{TextDocument: protocol.TextDocumentIdentifier{URI: u}}); err != nil {
				return "", err
			}
			evs = append(evs, fmt.Sprintf("(Close %d)", e.URI))
		}
		if !quiesce(base) {
			return "", fmt.Errorf("background work did not finish")
		}
		snaps = append(snaps, c01Snap(srv))
	}
	// second sentence of C01: answers are those of the current text
	fresh := true
	for ui := 0; ui < 3; ui++ {
		u := c01URI(ui)
		text, ok := srv.GetDocument(u)
		if !ok || !utf8.ValidString(text) {
			continue
		}
		fs, _, fbase := newTestServer()
		_ = fs.DidOpen(ctx, &protocol.DidOpenTextDocumentParams{TextDocument: protocol.TextDocumentItem{URI: u, Text: text, Version: 1}})
		quiesce(fbase)
		if c01Answers(srv, u, text) != c01Answers(fs, u, text) {
			fresh = false
		}
		_ = fs.DidClose(ctx, &protocol.DidCloseTextDocumentParams{TextDocument: protocol.TextDocumentIdentifier{URI: u}})
	}
	for ui := 0; ui < 3; ui++ {
		_ = srv.DidClose(ctx, &protocol.DidCloseTextDocumentParams{TextDocument: protocol.TextDocumentIdentifier{URI: c01URI(ui)}})
	}
	if !fresh {
		st.count("fresh:differs")
	}
	return fmt.Sprintf("(mkCase %s %s %s)", gList(evs), gList(snaps), gBool(fresh)), nil
}

func runC01(o opts) error {
	st := newStats("C01", o.seed, "case = history of 2..12 open/change/close events on up to 3 URIs, 1..4 content changes per notification, decoded from wire JSON; non-trivial = some ranged change spans lines or inserts a line break; distinct by hash of the history")
	w, err := newShardWriter(o.out, "C01", o.shards, "case")
	if err != nil {
		return err
	}
	cs, err := newCaseStore(o.out, "C01")
	if err != nil {
		return err
	}
	defer cs.close()
	id := 0
	runOne := func(c c01Case, nt bool) error {
		term, err := c01Run(c, st)
		if err != nil {
			return err
		}
		js, _ := json.Marshal(c)
		st.record(string(js), nt, string(js))
		cs.add(id, c)
		w.add(id, term)
		id++
		return nil
	}
	raws, err := loadCaseFiles(corpusFiles(o))
	if err != nil {
		return err
	}
	for _, raw := range raws {
		var c c01Case
		if err := json.Unmarshal(raw, &c); err != nil {
			return err
		}
		st.count("source:corpus")
		if err := runOne(c, true); err != nil {
			return err
		}
	}
	if o.replay == "" {
		r := newRng(o.seed)
		for i := 0; i < o.n; i++ {
			c, nt := c01Gen(r.fork(), st)
			st.count("source:generated")
			if err := runOne(c, nt); err != nil {
				return err
			}
		}
	}
	if err := w.close(); err != nil {
		return err
	}
	return st.write(o.out)
}

// genApply keeps the generator's own view of the text (generation aid only, never used in a verdict).
func genOff(text string, l, c uint32) int {
	off := 0
	for l > 0 {
		i := strings.IndexByte(text[off:], '\n')
		if i < 0 {
			return len(text)
		}
		off += i + 1
		l--
	}
	col := uint32(0)
	for off < len(text) && col < c {
		if text[off] == '\n' || (text[off] == '\r' && off+1 < len(text) && text[off+1] == '\n') {
			break
		}
		r, n := utf8.DecodeRuneInString(text[off:])
		if r >= 0x10000 {
			col += 2
		} else {
			col++
		}
		off += n
	}
	return off
}

func genApply(text string, l1, c1, l2, c2 uint32, ins string) string {
	a, b := genOff(text, l1, c1), genOff(text, l2, c2)
	if a > b {
		a, b = b, a
	}
	return text[:a] + ins + text[b:]
}
