module github.com/juev/hledger-lsp/verifharness

go 1.24

require (
	github.com/juev/hledger-lsp v0.0.0
	github.com/shopspring/decimal v1.4.0
	go.lsp.dev/protocol v0.12.0
	go.lsp.dev/uri v0.3.0
)

require (
	github.com/bmatcuk/doublestar/v4 v4.9.2 // indirect
	github.com/segmentio/asm v1.1.3 // indirect
	github.com/segmentio/encoding v0.3.4 // indirect
	go.lsp.dev/jsonrpc2 v0.10.0 // indirect
	go.lsp.dev/pkg v0.0.0-20210717090340-384b27a52fb2 // indirect
	go.uber.org/atomic v1.9.0 // indirect
	go.uber.org/multierr v1.8.0 // indirect
	go.uber.org/zap v1.21.0 // indirect
	golang.org/x/sys v0.1.0 // indirect
)

replace github.com/juev/hledger-lsp => /repo
