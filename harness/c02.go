package main

import (
	"context"
	"encoding/json"
	"fmt"
	"os"
	"strings"

	"github.com/shopspring/decimal"
	"go.lsp.dev/protocol"

	"github.com/juev/hledger-lsp/internal/parser"
)

func init() { runners["C02"] = runC02 }

type c02Case struct {
	Txs []GTx `json:"txs"`
}

// intended posting as a Gallina Ast.posting with zero ranges
func gIntAmount(a GAmount) string {
	return fmt.Sprintf("(mkAmt (mkDec %s %s) [] (mkCom %s %s rng0) false rng0)", gZ(a.Mant), gZ(int64(a.exp10())), gBytes(a.Sym), gBool(a.Side == "L"))
}
func gIntPosting(p GPosting) string {
	amt, co := "None", "None"
	if p.Amount != nil {
		amt = "(Some " + gIntAmount(*p.Amount) + ")"
	}
	if p.Cost != nil {
		co = fmt.Sprintf("(Some (mkCost %s %s rng0))", gIntAmount(p.Cost.Amt), gBool(p.Cost.Total))
	}
	v := []string{"VNone", "VBalanced", "VUnbalanced"}[p.Virtual]
	return fmt.Sprintf("(mkPosting StNone %s rng0 %s None %s [] [] %s rng0)", gBytes(p.Account), amt, co, v)
}

func c02GenTx(r *rng, st *stats, o genOpts) GTx {
	t := genTx(r, o)
	nsyms := pickW(r, []int{1, 2, 3}, []int{60, 30, 10})
	syms := []string{}
	pool := append([]string{}, gSymsR...)
	pool = append(pool, "$", "€", "", "apples", "hrs")
	for len(syms) < nsyms {
		s := pick(r, pool)
		dup := false
		for _, x := range syms {
			if x == s {
				dup = true
			}
		}
		if !dup {
			syms = append(syms, s)
		}
	}
	dec := pickW(r, []int{0, 2, 1, 3, 4, 8, 12}, []int{20, 47, 9, 2, 9, 7, 6})
	// per commodity a group of postings summing to zero
	for _, sym := range syms {
		k := r.rangeInt(1, 3)
		var sum int64
		for i := 0; i < k; i++ {
			m := int64(r.rangeInt(1, 2000000))
			if r.chance(40) {
				m = int64(r.rangeInt(1, 999))
			}
			if r.chance(35) {
				m = -m
			}
			sum += m
			ind, sep := genIndentSep(r, o)
			a := genAmount(r, o, sym, m, dec)
			t.Postings = append(t.Postings, GPosting{Account: genAccount(r, o), Amount: &a, Indent: ind, Sep: sep})
		}
		ind, sep := genIndentSep(r, o)
		if sum == 0 {
			sum = 0
		}
		a := genAmount(r, o, sym, -sum, dec)
		if sum == 0 {
			a = genAmount(r, o, sym, 0, dec)
		}
		t.Postings = append(t.Postings, GPosting{Account: genAccount(r, o), Amount: &a, Indent: ind, Sep: sep})
	}
	for len(t.Postings) > 6 {
		// merge: drop a posting and repair below by an amount-less posting
		t.Postings = t.Postings[:6]
		st.count("tx:truncated")
	}
	shape := r.intn(100)
	switch {
	case shape < 30:
		st.count("tx:balanced")
	case shape < 55:
		// off by an exact residual in ONE commodity (no two-commodity price inference applies)
		i := r.intn(len(t.Postings))
		res := int64(r.rangeInt(1, 500))
		if r.chance(50) {
			res = -res
		}
		t.Postings[i].Amount.Mant += res
		st.count("tx:residual")
	case shape < 70:
		// one amount-less posting absorbs the rest
		i := r.intn(len(t.Postings))
		t.Postings[i].Amount = nil
		st.count("tx:one-missing")
	case shape < 80:
		// several amount-less postings
		t.Postings[0].Amount = nil
		ind, _ := genIndentSep(r, o)
		t.Postings = append(t.Postings, GPosting{Account: genAccount(r, o), Indent: ind})
		if len(t.Postings) > 6 {
			t.Postings = t.Postings[len(t.Postings)-6:]
			t.Postings[0].Amount = nil
		}
		st.count("tx:multi-missing")
	default:
		// a costed pair: q A @ p B  against  -(q*p) B ; optionally off by a residual
		symA, symB := "AAPL", "USD"
		q := int64(r.rangeInt(1, 50))
		if r.chance(40) {
			q = -q
		}
		p := int64(r.rangeInt(1, 99999))
		pdec := pickW(r, []int{2, 0, 4}, []int{60, 20, 20})
		total := r.chance(40)
		ind, sep := genIndentSep(r, o)
		qa := genAmount(r, o, symA, q, 0)
		var costAmt GAmount
		var otherM int64
		if total {
			costAmt = genAmount(r, o, symB, p, pdec)
			otherM = -p
			if q < 0 {
				otherM = p
			}
		} else {
			costAmt = genAmount(r, o, symB, p, pdec)
			otherM = -q * p
		}
		costAmt.Plus = false
		if costAmt.Mant < 0 {
			costAmt.Mant = -costAmt.Mant
		}
		other := genAmount(r, o, symB, otherM, pdec)
		if r.chance(35) {
			other.Mant += int64(r.rangeInt(1, 300))
			st.count("tx:cost-residual")
		} else {
			st.count("tx:cost-balanced")
		}
		t.Postings = []GPosting{
			{Account: genAccount(r, o), Amount: &qa, Cost: &GCost{Total: total, Amt: costAmt}, Indent: ind, Sep: sep},
			{Account: genAccount(r, o), Amount: &other, Indent: ind, Sep: sep},
		}
	}
	// the residuals above changed mantissas after genAmount had applied the single-mark rule of G
	// (DESIGN.md 4.2): re-apply it, so that no value with three decimals is spelled `1,264`
	for i := range t.Postings {
		if a := t.Postings[i].Amount; a != nil {
			fixSingleMark(a)
		}
		if c := t.Postings[i].Cost; c != nil {
			fixSingleMark(&c.Amt)
		}
	}
	// postings in parentheses are outside the equation; brackets are inside
	for i := range t.Postings {
		if r.chance(12) {
			t.Postings[i].Virtual = 1
			st.count("posting:bracketed")
		}
	}
	if r.chance(25) && len(t.Postings) < 6 {
		ind, sep := genIndentSep(r, o)
		p := GPosting{Account: genAccount(r, o), Virtual: 2, Indent: ind, Sep: sep}
		if r.chance(70) {
			a := genAmount(r, o, pick(r, gSymsR), int64(r.rangeInt(-500, 500)), 2)
			p.Amount = &a
		}
		pos := r.intn(len(t.Postings) + 1)
		t.Postings = append(t.Postings[:pos], append([]GPosting{p}, t.Postings[pos:]...)...)
		st.count("posting:parenthesised")
	}
	if len(t.Postings) == 0 || r.chance(2) {
		t.Postings = nil
		st.count("tx:no-postings")
	}
	for _, p := range t.Postings {
		if p.Amount != nil {
			a := p.Amount
			key := "notation:" + a.Side
			if a.Group != "" {
				key += "+group" + map[string]string{",": "comma", ".": "point", " ": "space"}[a.Group]
			}
			if a.DecMark == "," {
				key += "+deccomma"
			}
			if a.UseE {
				key += "+E"
			}
			if a.Trailing {
				key += "+trailing"
			}
			if a.SignAfter && a.Mant < 0 {
				key += "+signafter"
			}
			st.count(key)
		}
	}
	return t
}

// known-finding classes present in a case (bit mask -> class, lowest first)
func c02Flags(c c02Case) int {
	f := 0
	mark := func(a *GAmount) {
		if a == nil {
			return
		}
		if a.UseE && a.Dec > 0 {
			f |= 1
		}
		if a.Group == " " && a.Dec == 3 && !a.UseE {
			f |= 2
		}
		if a.Side == "L" && a.Glue && isUpperCode(a.Sym) {
			f |= 4
		}
	}
	for _, t := range c.Txs {
		for _, p := range t.Postings {
			mark(p.Amount)
			if p.Cost != nil {
				mark(&p.Cost.Amt)
			}
		}
	}
	switch {
	case f&1 != 0:
		return 1
	case f&2 != 0:
		return 2
	case f&4 != 0:
		return 3
	}
	return 0
}

func c02ParseMessage(msg string) ([]string, error) {
	const pre = "transaction does not balance: "
	if !strings.HasPrefix(msg, pre) {
		return nil, fmt.Errorf("unexpected message %q", msg)
	}
	var parts []string
	for _, part := range strings.Split(msg[len(pre):], "; ") {
		i := strings.LastIndex(part, " off by ")
		if i < 0 {
			return nil, fmt.Errorf("unexpected part %q", part)
		}
		d, err := decimal.NewFromString(part[i+8:])
		if err != nil {
			return nil, fmt.Errorf("unexpected difference %q", part[i+8:])
		}
		parts = append(parts, "("+gBytes(part[:i])+", "+gDec(d)+")")
	}
	return parts, nil
}

func c02Run(c c02Case, flags int) (string, error) {
	j := GJournal{EOL: "\n"}
	headerLine := map[int]int{}
	line := 0
	for i := range c.Txs {
		t := c.Txs[i]
		j.Items = append(j.Items, GItem{Tx: &t, Blank: 1})
		headerLine[line] = i
		line += len(t.lines()) + 1
	}
	text := j.text()
	srv, stub, base := newTestServer()
	ctx := context.Background()
	u := c01URI(0)
	if err := srv.DidOpen(ctx, &protocol.DidOpenTextDocumentParams{TextDocument: protocol.TextDocumentItem{URI: u, Text: text}}); err != nil {
		return "", err
	}
	if !quiesce(base) {
		return "", fmt.Errorf("analysis did not finish")
	}
	pub, ok := stub.lastPublished(u)
	if !ok {
		return "", fmt.Errorf("no diagnostics published")
	}
	verdict := make([]string, len(c.Txs))
	for i := range verdict {
		verdict[i] = "OOk"
	}
	for _, d := range pub.Diagnostics {
		code, _ := d.Code.(string)
		if code != "UNBALANCED" && code != "MULTIPLE_INFERRED" {
			continue
		}
		ti, ok := headerLine[int(d.Range.Start.Line)]
		if !ok {
			return "", fmt.Errorf("balance diagnostic on line %d which is no transaction header", d.Range.Start.Line)
		}
		if code == "MULTIPLE_INFERRED" {
			verdict[ti] = "OMultiple"
		} else {
			parts, err := c02ParseMessage(d.Message)
			if err != nil {
				return "", err
			}
			verdict[ti] = "(OUnbalanced " + gList(parts) + ")"
		}
	}
	journal, _ := parser.Parse(text)
	// map parsed transactions to intended ones by header line
	parsed := make([]string, len(c.Txs))
	for i := range parsed {
		parsed[i] = "[]"
	}
	for _, pt := range journal.Transactions {
		if ti, ok := headerLine[pt.Range.Start.Line-1]; ok {
			var ps []string
			for _, p := range pt.Postings {
				ps = append(ps, gPosting(p))
			}
			parsed[ti] = gList(ps)
		}
	}
	if os.Getenv("VERIF_DEBUG") != "" {
		for _, pt := range journal.Transactions {
			ti, ok := headerLine[pt.Range.Start.Line-1]
			if !ok {
				continue
			}
			it := c.Txs[ti]
			if len(pt.Postings) != len(it.Postings) {
				fmt.Fprintf(os.Stderr, "MISMATCH posting count %d vs %d in\n%s\n", len(pt.Postings), len(it.Postings), strings.Join(it.lines(), "\n"))
				continue
			}
			for k, ip := range it.Postings {
				pp := pt.Postings[k]
				bad := pp.Account.Name != ip.Account || (pp.Amount == nil) != (ip.Amount == nil)
				if !bad && ip.Amount != nil {
					want := decimal.New(ip.Amount.Mant, int32(ip.Amount.exp10()))
					bad = !pp.Amount.Quantity.Equal(want) || pp.Amount.Commodity.Symbol != ip.Amount.Sym
				}
				if !bad && (pp.Cost == nil) != (ip.Cost == nil) {
					bad = true
				}
				if !bad && ip.Cost != nil {
					want := decimal.New(ip.Cost.Amt.Mant, int32(ip.Cost.Amt.exp10()))
					bad = !pp.Cost.Amount.Quantity.Equal(want) || pp.Cost.Amount.Commodity.Symbol != ip.Cost.Amt.Sym
				}
				if bad {
					fmt.Fprintf(os.Stderr, "MISMATCH %q\n", ip.text())
				}
			}
		}
	}
	var items []string
	for i, t := range c.Txs {
		var ips []string
		for _, p := range t.Postings {
			ips = append(ips, gIntPosting(p))
		}
		items = append(items, fmt.Sprintf("(mkTxCase %s %s %s)", gList(ips), parsed[i], verdict[i]))
	}
	_ = srv.DidClose(ctx, &protocol.DidCloseTextDocumentParams{TextDocument: protocol.TextDocumentIdentifier{URI: u}})
	return fmt.Sprintf("(mkCase %s %d)", gList(items), flags), nil
}

func runC02(o opts) error {
	st := newStats("C02", o.seed, "case = a document of 1..3 transactions from G (0..6 postings, ordinary / [bracketed] / (parenthesised), 1..3 commodities, unit and total costs, every number notation: decimal point/comma, digit groups , . blank, trailing mark, E notation, sign before/after a left commodity, commodity left/right/none), balanced, off by an exact residual in one commodity, with one or several amount-less postings; opened on an in-process server; non-trivial = a transaction with >= 2 amount-carrying real postings; distinct by hash")
	gopts := genOpts{Exponent: true, NonASCII: true}
	return runGeneric(o, st, "case", func(raw json.RawMessage) (string, bool, string, error) {
		var c c02Case
		if err := json.Unmarshal(raw, &c); err != nil {
			return "", false, "", err
		}
		t, err := c02Run(c, c02Flags(c))
		return t, true, string(raw), err
	}, func(r *rng, i int) (interface{}, string, bool, error) {
		var c c02Case
		n := pickW(r, []int{1, 2, 3}, []int{60, 25, 15})
		nt := false
		for k := 0; k < n; k++ {
			t := c02GenTx(r, st, gopts)
			cnt := 0
			for _, p := range t.Postings {
				if p.Amount != nil && p.Virtual != 2 {
					cnt++
				}
			}
			if cnt >= 2 {
				nt = true
			}
			c.Txs = append(c.Txs, t)
		}
		st.count("source:generated")
		t, err := c02Run(c, c02Flags(c))
		return c, t, nt, err
	})
}

// fixSingleMark re-applies the single-mark rule of G to an amount whose mantissa was changed after
// genAmount: one mark followed by exactly three digits with a non-zero ungrouped integer part and
// no exponent is a grouped integer in this project, so such a value is written with an exponent.
func fixSingleMark(a *GAmount) {
	if a.Dec == 3 && a.Group == "" && !a.UseE && absI64(a.Mant)/1000 != 0 {
		a.UseE = true
		a.EExp = 0
	}
}
