package main

import (
	"context"
	"encoding/json"
	"fmt"
	"regexp"
	"strings"
	"time"

	"go.lsp.dev/protocol"

	"github.com/juev/hledger-lsp/internal/parser"
)

func init() { runners["C06"] = runC06 }

type c06Case struct {
	Hex  string `json:"hex"` // the document, hex encoded (arbitrary bytes)
	Kind string `json:"kind"`
}

func hexOf(s string) string { return fmt.Sprintf("%x", s) }
func unhex(h string) string {
	var b []byte
	fmt.Sscanf(h, "%x", &b)
	return string(b)
}

var c06Frags = []string{"2024-01-15", " * ", "(A12)", " grocery | note", "    assets:cash  ", "$10.00", " @ ", "0.9 EUR", " = $100", "\n", "\n", "    ", "; tag:value, x:y", "account a:b",
	"commodity 1,000.00 USD", "include x.journal", "P 2024-01-01 EUR 1.1 USD", "\"quoted sym\"", "[v:acct]", "(p:acct)", "==", "@@", "\t", "\r\n", "1 234,50", "1E5", "-", "+", "USD100", "Y 2024",
	"кафе", "日本語", "😀", "é", "\x00", "\xff", "\xc3", "\xe2\x82", "\xf0\x9f", "|", ";", ")", "(", "]", "[", "  ", ":", "a:b:c", "1.2.3", "2024-1", "2024-01-01=2024-01-02", "~", "#", "*", "!"}

func c06Gen(r *rng, st *stats) c06Case {
	k := r.intn(100)
	var sb strings.Builder
	switch {
	case k < 35: // a journal from G with injected damage
		j := GJournal{EOL: pick(r, []string{"\n", "\r\n"})}
		n := r.rangeInt(1, 5)
		for i := 0; i < n; i++ {
			t := c02GenTx(r, st, genOpts{Exponent: true, NonASCII: true, NonBMP: true, Tags: true, TxCommentLine: true, Quoted: true})
			j.Items = append(j.Items, GItem{Tx: &t, Blank: r.intn(2)})
		}
		text := []byte(j.text())
		nd := r.rangeInt(0, 6)
		for i := 0; i < nd && len(text) > 0; i++ {
			p := r.intn(len(text))
			switch r.intn(5) {
			case 0:
				text[p] = byte(r.intn(256))
			case 1:
				text = append(text[:p], text[p+1:]...)
			case 2:
				text = append(text[:p], append([]byte(pick(r, c06Frags)), text[p:]...)...)
			case 3:
				text = text[:p]
			default:
				text = append(text[:p], append([]byte{text[p]}, text[p:]...)...)
			}
		}
		st.count("kind:damaged-journal")
		return c06Case{Hex: hexOf(string(text)), Kind: "damaged-journal"}
	case k < 75: // fragment soup
		n := r.rangeInt(1, 40)
		for i := 0; i < n; i++ {
			sb.WriteString(pick(r, c06Frags))
		}
		st.count("kind:fragments")
		return c06Case{Hex: hexOf(sb.String()), Kind: "fragments"}
	case k < 92: // raw bytes
		n := r.rangeInt(0, 200)
		b := make([]byte, n)
		for i := range b {
			if r.chance(30) {
				b[i] = byte(r.intn(256))
			} else {
				const alphabet = " \n\t;:@=()[]|*!-+.,0123456789abcXYZ$\"\r"
				b[i] = alphabet[r.intn(len(alphabet))]
			}
		}
		st.count("kind:raw-bytes")
		return c06Case{Hex: hexOf(string(b)), Kind: "raw-bytes"}
	default: // long lines / many lines (size: a few KB)
		unit := pick(r, []string{"ab ", "1 ", "a:b ", "x", "  ", "(", "2024-01-01 ", "\n    a:b  1 USD", ";", "$1 "})
		n := r.rangeInt(100, 1500)
		st.count("kind:repetition")
		return c06Case{Hex: hexOf(strings.Repeat(unit, n)), Kind: "repetition"}
	}
}

type lexResult struct {
	toks []parser.Token
	err  string
}

var c06HugeExponent = regexp.MustCompile(`[0-9][Ee][+-]?[0-9]{5,}`)

func c06Lex(text string) lexResult {
	done := make(chan lexResult, 1)
	go func() {
		defer func() {
			if p := recover(); p != nil {
				done <- lexResult{err: fmt.Sprintf("lexer panic: %v", p)}
			}
		}()
		lx := parser.NewLexer(text)
		var toks []parser.Token
		for i := 0; i <= len(text)+2; i++ {
			t := lx.Next()
			toks = append(toks, t)
			if t.Type == parser.TokenEOF {
				done <- lexResult{toks: toks}
				return
			}
		}
		done <- lexResult{err: "lexer makes no progress (more tokens than bytes)"}
	}()
	select {
	case r := <-done:
		return r
	case <-time.After(20 * time.Second):
		return lexResult{err: "lexer hangs"}
	}
}

// every handler at a sample of positions, each under a wall-clock limit
func c06Handlers(text string) string {
	srv, _, base := newTestServer()
	ctx := context.Background()
	u := c01URI(0)
	td := protocol.TextDocumentIdentifier{URI: u}
	budget := 250*time.Millisecond + time.Duration(len(text))*100*time.Microsecond
	run := func(name string, f func()) string {
		done := make(chan string, 1)
		go func() {
			defer func() {
				if p := recover(); p != nil {
					done <- fmt.Sprintf("%s panics: %v", name, p)
				}
			}()
			f()
			done <- ""
		}()
		select {
		case e := <-done:
			return e
		case <-time.After(budget):
		}
		// over budget: wait for it (bounded), then measure a second run before calling it slow
		select {
		case e := <-done:
			if e != "" {
				return e
			}
		case <-time.After(60 * time.Second):
			return fmt.Sprintf("%s hangs (no answer within 60 s) on %d bytes", name, len(text))
		}
		t0 := time.Now()
		f()
		if d := time.Since(t0); d > budget {
			return fmt.Sprintf("TIME %s takes %v, budget %v for %d bytes", name, d.Round(time.Millisecond), budget, len(text))
		}
		return ""
	}
	if e := run("didOpen+diagnostics", func() {
		_ = srv.DidOpen(ctx, &protocol.DidOpenTextDocumentParams{TextDocument: protocol.TextDocumentItem{URI: u, Text: text}})
		quiesce(base + 1) // +1: this closure runs in its own goroutine
	}); e != "" {
		return e
	}
	lines := strings.Split(text, "\n")
	var positions []protocol.Position
	for li := 0; li < len(lines) && li < 6; li++ {
		w := utf16Len(lines[li])
		for _, c := range []int{0, 1, w / 2, w, w + 3} {
			positions = append(positions, protocol.Position{Line: uint32(li), Character: uint32(c)})
		}
	}
	positions = append(positions, protocol.Position{Line: uint32(len(lines) + 2), Character: 7})
	whole := []struct {
		name string
		f    func()
	}{
		{"formatting", func() { _, _ = srv.Format(ctx, &protocol.DocumentFormattingParams{TextDocument: td}) }},
		{"documentSymbol", func() { _, _ = srv.DocumentSymbol(ctx, &protocol.DocumentSymbolParams{TextDocument: td}) }},
		{"foldingRange", func() {
			_, _ = srv.FoldingRanges(ctx, &protocol.FoldingRangeParams{TextDocumentPositionParams: protocol.TextDocumentPositionParams{TextDocument: td}})
		}},
		{"documentLink", func() { _, _ = srv.DocumentLink(ctx, &protocol.DocumentLinkParams{TextDocument: td}) }},
		{"semanticTokens/full", func() { _, _ = srv.SemanticTokensFull(ctx, &protocol.SemanticTokensParams{TextDocument: td}) }},
		{"workspaceSymbol", func() { _, _ = srv.WorkspaceSymbol(ctx, &protocol.WorkspaceSymbolParams{Query: "a"}) }},
	}
	for _, h := range whole {
		if e := run(h.name, h.f); e != "" {
			return e
		}
	}
	for _, p := range positions {
		pos := protocol.TextDocumentPositionParams{TextDocument: td, Position: p}
		at := fmt.Sprintf("@%d:%d", p.Line, p.Character)
		hs := []struct {
			name string
			f    func()
		}{
			{"completion", func() { _, _ = srv.Completion(ctx, &protocol.CompletionParams{TextDocumentPositionParams: pos}) }},
			{"hover", func() { _, _ = srv.Hover(ctx, &protocol.HoverParams{TextDocumentPositionParams: pos}) }},
			{"definition", func() { _, _ = srv.Definition(ctx, &protocol.DefinitionParams{TextDocumentPositionParams: pos}) }},
			{"references", func() {
				_, _ = srv.References(ctx, &protocol.ReferenceParams{TextDocumentPositionParams: pos, Context: protocol.ReferenceContext{IncludeDeclaration: true}})
			}},
			{"prepareRename", func() { _, _ = srv.PrepareRename(ctx, &protocol.PrepareRenameParams{TextDocumentPositionParams: pos}) }},
			{"rename", func() {
				_, _ = srv.Rename(ctx, &protocol.RenameParams{TextDocumentPositionParams: pos, NewName: "new:name"})
			}},
			{"inlineCompletion", func() {
				_, _ = srv.InlineCompletion(ctx, json.RawMessage(fmt.Sprintf(`{"textDocument":{"uri":%q},"position":{"line":%d,"character":%d}}`, string(u), p.Line, p.Character)))
			}},
		}
		for _, h := range hs {
			if e := run(h.name+at, h.f); e != "" {
				return e
			}
		}
	}
	_ = srv.DidClose(ctx, &protocol.DidCloseTextDocumentParams{TextDocument: td})
	return ""
}

func c06Run(c c06Case) (string, error) {
	text := unhex(c.Hex)
	lr := c06Lex(text)
	if lr.err != "" {
		return "", fmt.Errorf("%s", lr.err)
	}
	timeOK, flags := true, 0
	if e := c06Handlers(text); e != "" {
		if strings.HasPrefix(e, "TIME ") && c06HugeExponent.MatchString(text) {
			timeOK, flags = false, 1 // known class 1: huge_exponent
		} else {
			return "", fmt.Errorf("%s", e)
		}
	}
	var ts []string
	for _, t := range lr.toks {
		ts = append(ts, fmt.Sprintf("(mkOT %d %s %d %d %d %d %d %d)", int(t.Type), gBytes(t.Value), t.Pos.Line, t.Pos.Column, t.Pos.Offset, t.End.Line, t.End.Column, t.End.Offset))
	}
	return fmt.Sprintf("(mkCase %s %s %s %d)", gBytes(text), gList(ts), gBool(timeOK), flags), nil
}

func runC06(o opts) error {
	st := newStats("C06", o.seed, "case = a document of arbitrary bytes (journals from G with injected damage: random bytes, deletions, insertions of syntax fragments, truncation, duplication; soups of syntax fragments incl. invalid UTF-8, NUL, unterminated constructs; raw bytes; long repetitions) lexed token by token and then opened on an in-process server with every position-independent handler and 7 position handlers at up to 31 positions, each under a wall-clock limit and a recover(); non-trivial = the document contains a non-ASCII byte or an unterminated construct; distinct by hash")
	return runGeneric(o, st, "case", func(raw json.RawMessage) (string, bool, string, error) {
		var c c06Case
		if err := json.Unmarshal(raw, &c); err != nil {
			return "", false, "", err
		}
		t, err := c06Run(c)
		return t, true, string(raw), err
	}, func(r *rng, i int) (interface{}, string, bool, error) {
		c := c06Gen(r, st)
		st.count("source:generated")
		t, err := c06Run(c)
		text := unhex(c.Hex)
		nt := false
		for i := 0; i < len(text); i++ {
			if text[i] >= 0x80 || text[i] == '"' || text[i] == '(' {
				nt = true
			}
		}
		return c, t, nt, err
	})
}
