package main

import (
	"encoding/json"
)

// runGeneric is the common driver: corpus / replay cases first, then n generated cases.
// fromRaw re-runs a stored case; gen draws and runs a new one.
func runGeneric(o opts, st *stats, caseType string,
	fromRaw func(raw json.RawMessage) (term string, nontrivial bool, sample string, err error),
	gen func(r *rng, i int) (c interface{}, term string, nontrivial bool, err error)) error {
	w, err := newShardWriter(o.out, o.prop, o.shards, caseType)
	if err != nil {
		return err
	}
	cs, err := newCaseStore(o.out, o.prop)
	if err != nil {
		return err
	}
	defer cs.close()
	id := 0
	raws, err := loadCaseFiles(corpusFiles(o))
	if err != nil {
		return err
	}
	for _, raw := range raws {
		term, nt, sample, err := fromRaw(raw)
		st.count("source:corpus")
		var v interface{}
		_ = json.Unmarshal(raw, &v)
		if err != nil {
			st.ImplFail = append(st.ImplFail, implFailure{Case: id, What: err.Error(), Replay: string(raw)})
		} else {
			w.add(id, term)
		}
		st.record(sample, nt, sample)
		cs.add(id, v)
		id++
	}
	if o.replay == "" {
		r := newRng(o.seed)
		for i := 0; i < o.n; i++ {
			c, term, nt, err := gen(r.fork(), i)
			js, _ := json.Marshal(c)
			if err != nil {
				st.ImplFail = append(st.ImplFail, implFailure{Case: id, What: err.Error(), Replay: string(js)})
			} else {
				w.add(id, term)
			}
			st.record(string(js), nt, string(js))
			cs.add(id, c)
			id++
		}
	}
	if err := w.close(); err != nil {
		return err
	}
	return st.write(o.out)
}
