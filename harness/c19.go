package main

import (
	"time"
	"context"
	"encoding/json"
	"fmt"
	"runtime"
	"strconv"
	"strings"

	"go.lsp.dev/protocol"

	"github.com/juev/hledger-lsp/internal/server"
)

func init() { runners["C19"] = runC19 }

type c19Step struct {
	Trig    string `json:"trig"`    // init | initialized | change | change_err | change_empty | overlap
	Payload string `json:"payload"` // JSON text
	// overlap: two change notifications; the client answers the first pull (Payload) only after the second
	// (Payload2) has been pulled, answered and stored: the answers arrive in the order Payload2, Payload
	Payload2 string `json:"payload2,omitempty"`
}
type c19Case struct {
	Steps []c19Step `json:"steps"`
}

type keySpec struct {
	section, name, kind string // kind: bool | int | str
}

var c19Keys = []keySpec{
	{"features", "hover", "bool"}, {"features", "completion", "bool"}, {"features", "formatting", "bool"},
	{"features", "diagnostics", "bool"}, {"features", "semanticTokens", "bool"}, {"features", "codeActions", "bool"},
	{"features", "foldingRanges", "bool"}, {"features", "documentLinks", "bool"}, {"features", "workspaceSymbol", "bool"},
	{"features", "inlineCompletion", "bool"},
	{"completion", "maxResults", "int"}, {"completion", "fuzzyMatching", "bool"}, {"completion", "showCounts", "bool"},
	{"diagnostics", "undeclaredAccounts", "bool"}, {"diagnostics", "undeclaredCommodities", "bool"},
	{"diagnostics", "unbalancedTransactions", "bool"},
	{"formatting", "indentSize", "int"}, {"formatting", "alignAmounts", "bool"}, {"formatting", "minAlignmentColumn", "int"},
	{"cli", "enabled", "bool"}, {"cli", "path", "str"}, {"cli", "timeout", "int"},
	{"limits", "maxFileSizeBytes", "int"}, {"limits", "maxFileSize", "int"}, {"limits", "maxIncludeDepth", "int"},
}

func jstr(s string) string { b, _ := json.Marshal(s); return string(b) }

func c19Number(r *rng, st *stats) string {
	switch r.intn(10) {
	case 0:
		st.count("num:zero")
		return "0"
	case 1:
		st.count("num:negative")
		return strconv.Itoa(-r.rangeInt(1, 1000))
	case 2:
		st.count("num:fraction")
		return fmt.Sprintf("%d.%s", r.rangeInt(-3, 300), pick(r, []string{"5", "25", "75", "999", "001", "0"}))
	case 3:
		st.count("num:exponent")
		return fmt.Sprintf("%de%d", r.rangeInt(-9, 99), r.intn(4))
	case 4:
		st.count("num:large")
		return strconv.FormatInt(int64(r.next()%(1<<52)), 10)
	case 5:
		st.count("num:negfraction")
		return fmt.Sprintf("-0.%d", r.rangeInt(1, 99))
	default:
		st.count("num:small")
		return strconv.Itoa(r.rangeInt(1, 200))
	}
}

func c19Value(r *rng, kind string, st *stats) (text string, welltyped bool) {
	mode := r.intn(100)
	switch {
	case mode < 55: // native well-typed
		switch kind {
		case "bool":
			st.count("val:bool")
			return gBool(r.chance(50)), true
		case "int":
			return c19Number(r, st), true
		default:
			st.count("val:path")
			return jstr(pick(r, []string{"hledger", "/usr/bin/hledger", "", "hl édger", "C:\\hledger.exe", " h "})), true
		}
	case mode < 80: // string-typed spelling
		switch kind {
		case "bool":
			st.count("val:boolstring")
			return jstr(pick(r, []string{"true", "false", " TRUE ", "False", "\tfalse\n", "tRuE", "yes", "1", "", " ", "truee", "TRUE\u00e9"})), true
		case "int":
			st.count("val:intstring")
			return jstr(pick(r, []string{"42", " 7 ", "+5", "-3", "0", "007", "12abc", "1e3", "", "  ", "99999999999999999999", "-9223372036854775808", "9223372036854775807", "9223372036854775808", "3.5", "--1", "+", "1_000", "\n15\t"})), true
		default:
			st.count("val:pathnonstring")
			return pick(r, []string{"12", "true", "null"}), false
		}
	default: // ill-typed
		st.count("val:illtyped")
		return pick(r, []string{"null", "[]", "[1]", "{}", `{"a":1}`, "true", "1.5", `"x"`, "[true]"}), false
	}
}

// c19Payload draws one configuration payload as JSON text.
func c19Payload(r *rng, st *stats, depth int) (string, bool) {
	shape := r.intn(100)
	switch {
	case shape < 6:
		st.count("payload:nonobject")
		return pick(r, []string{"null", "[]", `"hledger"`, "3", "true", `[{"features":{"hover":false}}]`}), false
	case shape < 26 && depth < 3:
		st.count("payload:wrapper")
		inner, nt := c19Payload(r, st, depth+1)
		var parts []string
		if r.chance(40) { // sibling keys are ignored when the wrapper is present
			parts = append(parts, `"features":{"hover":`+gBool(r.chance(50))+`}`)
			st.count("payload:wrapper+siblings")
		}
		parts = append(parts, `"hledger":`+inner)
		if r.chance(20) {
			parts = append(parts, `"completion.maxResults":`+strconv.Itoa(r.rangeInt(1, 99)))
		}
		return "{" + strings.Join(parts, ",") + "}", nt
	}
	st.count("payload:object")
	nested := map[string][]string{}
	var order []string
	var dotted []string
	goodCount, badCount := 0, 0
	nkeys := r.rangeInt(0, 8)
	for i := 0; i < nkeys; i++ {
		k := pick(r, c19Keys)
		v, ok := c19Value(r, k.kind, st)
		if ok {
			goodCount++
		} else {
			badCount++
		}
		if r.chance(55) {
			if _, seen := nested[k.section]; !seen {
				order = append(order, k.section)
			}
			nested[k.section] = append(nested[k.section], jstr(k.name)+":"+v)
			st.count("key:nested")
		} else {
			dotted = append(dotted, jstr(k.section+"."+k.name)+":"+v)
			st.count("key:dotted")
		}
	}
	var parts []string
	for _, sec := range order {
		parts = append(parts, jstr(sec)+":{"+strings.Join(nested[sec], ",")+"}")
	}
	parts = append(parts, dotted...)
	if r.chance(15) {
		st.count("key:unknown")
		parts = append(parts, pick(r, []string{`"unknown":1`, `"features.nope":true`, `"limits":7`, `"features":null`, `"completion":[1,2]`, `"Features":{"hover":false}`, `"formatting.indentsize":9`}))
		badCount++
	}
	// shuffle parts
	for i := len(parts) - 1; i > 0; i-- {
		j := r.intn(i + 1)
		parts[i], parts[j] = parts[j], parts[i]
	}
	return "{" + strings.Join(parts, ",") + "}", goodCount > 0 && badCount > 0
}

func c19Gen(r *rng, st *stats) (c19Case, bool) {
	var c c19Case
	n := r.rangeInt(1, 4)
	nt := false
	for i := 0; i < n; i++ {
		trig := "change"
		if i == 0 && r.chance(60) {
			trig = "init"
		} else if r.chance(8) {
			trig = "initialized"
		} else if r.chance(4) {
			trig = "change_err"
		} else if r.chance(4) {
			trig = "change_empty"
		}
		p, pnt := c19Payload(r, st, 0)
		nt = nt || pnt
		step := c19Step{Trig: trig, Payload: p}
		if trig == "change" && r.chance(20) {
			step.Trig = "overlap"
			p2, pnt2 := c19Payload(r, st, 0)
			nt = nt || pnt2
			step.Payload2 = p2
		}
		st.count("trig:" + step.Trig)
		c.Steps = append(c.Steps, step)
	}
	return c, nt
}

func gSettings(v server.VerifSettings) string {
	var sb strings.Builder
	sb.WriteString("(mkSettings")
	for _, b := range v.Features {
		sb.WriteString(" " + gBool(b))
	}
	sb.WriteString(" " + gZ(int64(v.MaxResults)) + " " + gBool(v.Fuzzy) + " " + gBool(v.ShowCounts))
	for _, b := range v.Diag {
		sb.WriteString(" " + gBool(b))
	}
	sb.WriteString(" " + gZ(int64(v.IndentSize)) + " " + gBool(v.Align) + " " + gZ(int64(v.MinColumn)))
	sb.WriteString(" " + gBool(v.CLIEnabled) + " " + gBytes(v.CLIPath) + " " + gZ(v.CLITimeout))
	sb.WriteString(" " + gZ(v.MaxFileSize) + " " + gZ(int64(v.MaxDepth)) + ")")
	return sb.String()
}

// c19Run executes one case on a fresh server and returns the Gallina case term.
func c19Run(c c19Case) (string, error) {
	srv := server.NewServer()
	stub := &stubClient{}
	srv.SetClient(stub)
	ctx := context.Background()
	base := runtime.NumGoroutine()
	var steps []string
	initialised := false
	doInit := func(opts interface{}) (string, error) {
		params := &protocol.InitializeParams{
			Capabilities:          protocol.ClientCapabilities{Workspace: &protocol.WorkspaceClientCapabilities{Configuration: true}},
			InitializationOptions: opts,
		}
		res, err := srv.Initialize(ctx, params)
		if err != nil {
			return "", err
		}
		initialised = true
		cp := res.Capabilities
		_, inl := cp.Experimental.(map[string]any)
		caps := []bool{cp.HoverProvider != nil && cp.HoverProvider != false, cp.CompletionProvider != nil,
			cp.DocumentFormattingProvider != nil && cp.DocumentFormattingProvider != false, cp.SemanticTokensProvider != nil,
			cp.CodeActionProvider != nil, cp.FoldingRangeProvider != nil && cp.FoldingRangeProvider != false,
			cp.DocumentLinkProvider != nil, cp.WorkspaceSymbolProvider != nil && cp.WorkspaceSymbolProvider != false, inl}
		var cs []string
		for _, b := range caps {
			cs = append(cs, gBool(b))
		}
		return "(Some " + gList(cs) + ")", nil
	}
	for _, s := range c.Steps {
		var raw interface{}
		if err := json.Unmarshal([]byte(s.Payload), &raw); err != nil {
			return "", fmt.Errorf("payload %q: %v", s.Payload, err)
		}
		g, err := jsonToGallina(s.Payload)
		if err != nil {
			return "", err
		}
		caps := "None"
		trig := ""
		switch s.Trig {
		case "init":
			trig = "TInit"
			caps, err = doInit(raw)
			if err != nil {
				return "", err
			}
		default:
			if !initialised {
				if _, err := doInit(nil); err != nil {
					return "", err
				}
			}
			if s.Trig == "overlap" {
				var raw2 interface{}
				if err := json.Unmarshal([]byte(s.Payload2), &raw2); err != nil {
					return "", fmt.Errorf("payload %q: %v", s.Payload2, err)
				}
				g2, err := jsonToGallina(s.Payload2)
				if err != nil {
					return "", err
				}
				gate := make(chan struct{})
				stub.mu.Lock()
				stub.cfgErr, stub.cfgReply, stub.cfgHold = false, []interface{}{raw}, gate
				held := stub.cfgHeld
				stub.mu.Unlock()
				if err := srv.DidChangeConfiguration(ctx, &protocol.DidChangeConfigurationParams{}); err != nil {
					return "", err
				}
				if !waitUntil(func() bool { stub.mu.Lock(); defer stub.mu.Unlock(); return stub.cfgHeld == held+1 }, 10*time.Second) {
					return "", fmt.Errorf("the first configuration pull did not arrive")
				}
				stub.mu.Lock()
				stub.cfgReply = []interface{}{raw2}
				stub.mu.Unlock()
				if err := srv.DidChangeConfiguration(ctx, &protocol.DidChangeConfigurationParams{}); err != nil {
					return "", err
				}
				if !quiesce(base + 1) {
					return "", fmt.Errorf("configuration refresh did not finish")
				}
				steps = append(steps, fmt.Sprintf("(mkStep TChange %s %s None)", g2, gSettings(srv.VerifGetSettings())))
				close(gate)
				if !quiesce(base) {
					return "", fmt.Errorf("configuration refresh did not finish")
				}
				steps = append(steps, fmt.Sprintf("(mkStep TChange %s %s None)", g, gSettings(srv.VerifGetSettings())))
				continue
			}
			stub.mu.Lock()
			stub.cfgErr = s.Trig == "change_err"
			if s.Trig == "change_empty" {
				stub.cfgReply = []interface{}{}
			} else {
				stub.cfgReply = []interface{}{raw}
			}
			stub.mu.Unlock()
			switch s.Trig {
			case "initialized":
				trig = "TChange"
				if err := srv.Initialized(ctx, &protocol.InitializedParams{}); err != nil {
					return "", err
				}
			case "change":
				trig = "TChange"
				if err := srv.DidChangeConfiguration(ctx, &protocol.DidChangeConfigurationParams{}); err != nil {
					return "", err
				}
			default:
				trig = "TNoReply"
				if err := srv.DidChangeConfiguration(ctx, &protocol.DidChangeConfigurationParams{}); err != nil {
					return "", err
				}
			}
			if !quiesce(base) {
				return "", fmt.Errorf("configuration refresh did not finish")
			}
		}
		after := srv.VerifGetSettings()
		steps = append(steps, fmt.Sprintf("(mkStep %s %s %s %s)", trig, g, gSettings(after), caps))
	}
	return gList(steps), nil
}

func runC19(o opts) error {
	st := newStats("C19", o.seed, "case = 1..4 configuration payloads (initializationOptions or workspace/configuration reply) on one server; non-trivial = some payload object carries both a well-typed recognised key and an ill-typed or unrecognised one; distinct by hash of the whole case")
	w, err := newShardWriter(o.out, "C19", o.shards, "case")
	if err != nil {
		return err
	}
	cs, err := newCaseStore(o.out, "C19")
	if err != nil {
		return err
	}
	defer cs.close()
	id := 0
	runOne := func(c c19Case, nt bool) error {
		term, err := c19Run(c)
		if err != nil {
			return err
		}
		js, _ := json.Marshal(c)
		st.record(string(js), nt, string(js))
		cs.add(id, c)
		w.add(id, term)
		id++
		return nil
	}
	raws, err := loadCaseFiles(corpusFiles(o))
	if err != nil {
		return err
	}
	for _, raw := range raws {
		var c c19Case
		if err := json.Unmarshal(raw, &c); err != nil {
			return err
		}
		st.count("source:corpus")
		if err := runOne(c, true); err != nil {
			return err
		}
	}
	if o.replay == "" {
		r := newRng(o.seed)
		for i := 0; i < o.n; i++ {
			c, nt := c19Gen(r.fork(), st)
			st.count("source:generated")
			if err := runOne(c, nt); err != nil {
				return err
			}
		}
	}
	if err := w.close(); err != nil {
		return err
	}
	return st.write(o.out)
}
