package main

import (
	"context"
	"os"
	"path/filepath"
	"runtime"

	"go.lsp.dev/protocol"

	"github.com/juev/hledger-lsp/internal/server"
)

// tempWorkspace writes files (relative name -> content) into a fresh directory.
func tempWorkspace(files map[string]string) (string, error) {
	dir, err := os.MkdirTemp("", "verif-ws-")
	if err != nil {
		return "", err
	}
	dir, _ = filepath.EvalSymlinks(dir)
	for name, content := range files {
		p := filepath.Join(dir, name)
		if err := os.MkdirAll(filepath.Dir(p), 0o755); err != nil {
			return "", err
		}
		if err := os.WriteFile(p, []byte(content), 0o644); err != nil {
			return "", err
		}
	}
	return dir, nil
}

func fileURI(path string) protocol.DocumentURI { return protocol.DocumentURI("file://" + path) }

// newServerAt starts an in-process server; root == "" means no workspace root.
func newServerAt(root string, initOpts interface{}) (*server.Server, *stubClient, int) {
	os.Unsetenv("LEDGER_FILE")
	os.Unsetenv("HLEDGER_JOURNAL")
	srv := server.NewServer()
	stub := &stubClient{}
	srv.SetClient(stub)
	params := &protocol.InitializeParams{InitializationOptions: initOpts}
	if root != "" {
		params.RootURI = fileURI(root) //nolint:staticcheck
	}
	ctx := context.Background()
	_, _ = srv.Initialize(ctx, params)
	base := runtime.NumGoroutine()
	_ = srv.Initialized(ctx, &protocol.InitializedParams{})
	quiesce(base)
	return srv, stub, base
}
