package main

import (
	"encoding/json"
	"fmt"
	"hash/fnv"
	"os"
	"path/filepath"
	"sort"
	"strings"

	"github.com/juev/hledger-lsp/internal/analyzer"
	"github.com/juev/hledger-lsp/internal/include"
	"github.com/juev/hledger-lsp/internal/workspace"
)

func init() { runners["C12"] = runC12 }

type c12Update struct {
	File    string `json:"file"`
	Content string `json:"content"`
}
type c12Case struct {
	// index level: versions of file contents and a sequence of set(file, version) / remove(file)
	Versions map[string][]string `json:"versions"`
	IOps     [][2]int            `json:"iops"` // (file index, version index) ; version -1 = remove
	// workspace level
	Files   map[string]string `json:"files"`
	Updates []c12Update       `json:"updates"`
}

var c12Payees = []string{"shop", "cafe", "landlord", "employer", "market", "bakery", "pharmacy", "cinema", "taxi", "hotel", "airline", "gym", "dentist", "bookstore", "florist", "garage"}

var c12Names = []string{"main", "a", "b", "c", "d"}

func c12Journal(r *rng, st *stats, incs []string) string {
	var sb strings.Builder
	for _, i := range incs {
		sb.WriteString("include " + i + ".journal\n")
	}
	if r.chance(35) {
		sb.WriteString("account " + pick(r, c20Accts) + "\n")
		st.count("decl:account")
	}
	if r.chance(35) {
		sb.WriteString("commodity " + pick(r, []string{"1,000.00 USD", "1.000,00 EUR", "1000.0000 USD", "EUR 1 000,00"}) + "\n")
		st.count("decl:commodity")
	}
	n := r.rangeInt(0, 4)
	for i := 0; i < n; i++ {
		sb.WriteString(fmt.Sprintf("2024-%02d-%02d %s\n", r.rangeInt(1, 3), r.rangeInt(1, 5), pick(r, c12Payees)))
		a, b := pick(r, c20Accts), pick(r, c20Accts)
		v := r.rangeInt(1, 50)
		sym := pick(r, []string{"USD", "EUR", "GBP"})
		tag := ""
		if r.chance(40) {
			tag = "  ; " + pick(r, []string{"trip:rome", "trip:paris", "who:me", "trip:"})
		}
		sb.WriteString(fmt.Sprintf("    %s  %d %s%s\n    %s\n\n", a, v, sym, tag, b))
	}
	return sb.String()
}

func flattenCounts(kind string, m map[string]int, out map[string]int) {
	for k, v := range m {
		out[kind+k] = v
	}
}

func c12Snap(idx *workspace.WorkspaceIndex) string {
	s := idx.Snapshot()
	counts := map[string]int{}
	flattenCounts("A", s.AccountCounts, counts)
	flattenCounts("P", s.PayeeCounts, counts)
	flattenCounts("C", s.CommodityCounts, counts)
	flattenCounts("T", s.TagCounts, counts)
	for tag, vs := range s.TagValueCounts {
		for v, n := range vs {
			counts["V"+tag+"\x00"+v] = n
		}
	}
	var derived []string
	if s.Accounts != nil {
		for _, a := range s.Accounts.All {
			derived = append(derived, "A"+a)
		}
	}
	for _, p := range s.Payees {
		derived = append(derived, "P"+p)
	}
	for _, c := range s.Commodities {
		derived = append(derived, "C"+c)
	}
	for _, t := range s.Tags {
		derived = append(derived, "T"+t)
	}
	for _, d := range s.Dates {
		derived = append(derived, "D"+d)
		counts["D"+d] = -1 // date counts are not exposed: only presence is compared
	}
	var keys []string
	for k := range counts {
		keys = append(keys, k)
	}
	sort.Strings(keys)
	var cs []string
	for _, k := range keys {
		if counts[k] >= 0 {
			cs = append(cs, fmt.Sprintf("(%s, %d)", gBytes(k), counts[k]))
		}
	}
	return fmt.Sprintf("(mkSnap %s %s %s)", gList(cs), gBytesList(derived), c12Templates(s.PayeeTemplates))
}

// the template table as (payee, fingerprint of the posting list) pairs in payee order
func c12Templates(m map[string][]analyzer.PostingTemplate) string {
	var tk []string
	for k := range m {
		tk = append(tk, k)
	}
	sort.Strings(tk)
	var out []string
	for _, k := range tk {
		b, _ := json.Marshal(m[k])
		h := fnv.New64a()
		h.Write(b)
		out = append(out, fmt.Sprintf("(%s, %d)", gBytes(k), h.Sum64()))
	}
	return gList(out)
}

func c12FI(fi *workspace.FileIndex) string {
	counts := map[string]int{}
	flattenCounts("A", fi.AccountCounts, counts)
	flattenCounts("P", fi.PayeeCounts, counts)
	flattenCounts("C", fi.CommodityCounts, counts)
	flattenCounts("T", fi.TagCounts, counts)
	for tag, vs := range fi.TagValueCounts {
		for v, n := range vs {
			counts["V"+tag+"\x00"+v] = n
		}
	}
	for _, d := range fi.Dates {
		counts["D"+d]++ // dateCounts[date]++ once per entry of fi.Dates
	}
	var cs []string
	var keys []string
	for k := range counts {
		keys = append(keys, k)
	}
	sort.Strings(keys)
	for _, k := range keys {
		cs = append(cs, fmt.Sprintf("(%s, %d)", gBytes(k), counts[k]))
	}
	return fmt.Sprintf("(mkFI %s %s)", gList(cs), c12Templates(fi.PayeeTemplates))
}

// view of a workspace, component by component, as canonical JSON strings
func c12View(w *workspace.Workspace) []string {
	res := w.GetResolved()
	var members []string
	if res != nil {
		for p := range res.Files {
			members = append(members, filepath.Base(p))
		}
	}
	members = append(members, filepath.Base(w.RootJournalPath()))
	sort.Strings(members)
	s := w.IndexSnapshot()
	j := func(v interface{}) string { b, _ := json.Marshal(v); return string(b) }
	txKeys := map[string]int{}
	for k, es := range s.Transactions {
		txKeys[k] = len(es)
	}
	var byPrefix map[string][]string
	var all []string
	if s.Accounts != nil {
		byPrefix, all = s.Accounts.ByPrefix, s.Accounts.All
	}
	counters := j([]interface{}{all, byPrefix, s.Payees, s.Commodities, s.Tags, s.TagValues, s.Dates, s.AccountCounts, s.PayeeCounts, s.CommodityCounts, s.TagCounts, s.TagValueCounts})
	// the whole template table (encoding/json writes map keys in sorted order)
	return []string{j(members), counters, j(txKeys), j(s.PayeeTemplates), j([]interface{}{w.GetDeclaredAccounts(), w.GetDeclaredCommodities()}), j(w.GetCommodityFormats())}
}

func c12Run(c c12Case) (string, error) {
	// ---- index level ----
	idx := workspace.NewWorkspaceIndex()
	var iops []string
	var files []string
	for f := range c.Versions {
		files = append(files, f)
	}
	sort.Strings(files)
	for _, op := range c.IOps {
		name := files[op[0]%len(files)]
		path := "/ws/" + name + ".journal"
		if op[1] < 0 {
			idx.RemoveFile(path)
			iops = append(iops, fmt.Sprintf("(WRemove %s, %s)", gBytes(path), c12Snap(idx)))
			continue
		}
		vs := c.Versions[name]
		fi, _, _ := workspace.BuildFileIndexFromContent(path, vs[op[1]%len(vs)])
		idx.SetFileIndex(path, fi)
		iops = append(iops, fmt.Sprintf("(WSet %s %s, %s)", gBytes(path), c12FI(fi), c12Snap(idx)))
	}
	// ---- workspace level ----
	fm := map[string]string{}
	for n, t := range c.Files {
		fm[n+".journal"] = t
	}
	dir, err := tempWorkspace(fm)
	if err != nil {
		return "", err
	}
	defer os.RemoveAll(dir)
	os.Unsetenv("LEDGER_FILE")
	os.Unsetenv("HLEDGER_JOURNAL")
	ws := workspace.NewWorkspace(dir, include.NewLoader())
	if err := ws.Initialize(); err != nil {
		return "", err
	}
	ws.GetDeclaredAccounts()
	ws.GetDeclaredCommodities()
	ws.GetCommodityFormats()
	var masks []string
	for _, u := range c.Updates {
		p := filepath.Join(dir, u.File+".journal")
		if err := os.WriteFile(p, []byte(u.Content), 0o644); err != nil {
			return "", err
		}
		ws.UpdateFile(p, u.Content)
		fresh := workspace.NewWorkspace(dir, include.NewLoader())
		if err := fresh.Initialize(); err != nil {
			return "", err
		}
		a, b := c12View(ws), c12View(fresh)
		mask := 0
		for i := range a {
			if a[i] != b[i] {
				mask |= 1 << i
			}
		}
		masks = append(masks, fmt.Sprint(mask))
	}
	return fmt.Sprintf("(mkCase %s %s)", gList(iops), gList(masks)), nil
}

func c12Gen(r *rng, st *stats) c12Case {
	c := c12Case{Versions: map[string][]string{}, Files: map[string]string{}}
	nf := r.rangeInt(2, 4)
	for i := 0; i < nf; i++ {
		k := r.rangeInt(1, 3)
		for v := 0; v < k; v++ {
			c.Versions[c12Names[i]] = append(c.Versions[c12Names[i]], c12Journal(r, st, nil))
		}
	}
	nops := r.rangeInt(2, 8)
	for i := 0; i < nops; i++ {
		if r.chance(22) {
			c.IOps = append(c.IOps, [2]int{r.intn(nf), -1})
			st.count("iop:remove")
		} else {
			c.IOps = append(c.IOps, [2]int{r.intn(nf), r.intn(3)})
			st.count("iop:set")
		}
	}
	// workspace: main includes a random subset; others may include further files
	n := r.rangeInt(2, 5)
	names := c12Names[:n]
	incOf := func(self int) []string {
		var out []string
		for j := 1; j < n; j++ {
			if j != self && r.chance(40) {
				out = append(out, names[j])
			}
		}
		return out
	}
	for i, name := range names {
		incs := incOf(i)
		if i == 0 && len(incs) == 0 {
			incs = []string{names[1]}
		}
		c.Files[name] = c12Journal(r, st, incs)
	}
	nu := r.rangeInt(1, 8)
	for i := 0; i < nu; i++ {
		fi := r.intn(n)
		c.Updates = append(c.Updates, c12Update{File: names[fi], Content: c12Journal(r, st, incOf(fi))})
		st.count("update")
	}
	return c
}

func runC12(o opts) error {
	st := newStats("C12", o.seed, "case = (a) 2..8 SetFileIndex / RemoveFile operations on a WorkspaceIndex over 2..4 files with 1..3 content versions each, snapshot after every operation; (b) a directory of 2..5 journals (main includes a random subset, files include further files) and 1..8 updates that replace one file's content incl. its include list, each followed by a comparison of six view components with a freshly initialised workspace; non-trivial = an update changes an include list or two files share a payee; distinct by hash")
	return runGeneric(o, st, "case", func(raw json.RawMessage) (string, bool, string, error) {
		var c c12Case
		if err := json.Unmarshal(raw, &c); err != nil {
			return "", false, "", err
		}
		t, err := c12Run(c)
		return t, true, string(raw), err
	}, func(r *rng, i int) (interface{}, string, bool, error) {
		c := c12Gen(r, st)
		st.count("source:generated")
		t, err := c12Run(c)
		nt := false
		for _, u := range c.Updates {
			if strings.Contains(u.Content, "include ") {
				nt = true
			}
		}
		return c, t, nt, err
	})
}
