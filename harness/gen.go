package main

import (
	"fmt"
	"math/big"
	"strconv"
	"strings"
)

// Generator and printer for the supported grammar G (DESIGN.md 4.2). A value is a structure
// plus a layout; print() gives the text. Risky spellings (the classes DESIGN.md 6.3 lists) are
// only produced when the corresponding flag of genOpts is set.

type genOpts struct {
	CRLF, DescUpper, DescDigit, DescColon, DescSigil, TabSep, TxCommentLine, CodeColon bool
	LowerSymCost, Quoted, NonASCII, NonBMP, Exponent, Directives, Tags                   bool
	MaxPostings                                                                          int
}

type GAmount struct {
	Mant     int64  `json:"mant"`
	Dec      int    `json:"dec"`  // digits after the decimal mark; value = Mant / 10^Dec
	EExp     int    `json:"eexp"` // written with E notation: value = Mant / 10^Dec * 10^EExp (0 = none)
	UseE     bool   `json:"use_e"`
	Sym      string `json:"sym"`
	Side     string `json:"side"` // L | R | none
	Quoted   bool   `json:"quoted"`
	DecMark  string `json:"dec_mark"`
	Group    string `json:"group"` // "" | "," | "." | " "
	Trailing bool   `json:"trailing"`
	SignAfter bool  `json:"sign_after"` // left commodity: "$-5" instead of "-$5"
	Plus     bool   `json:"plus"`
	Glue     bool   `json:"glue"` // no blank between number and right commodity / after left code
}

type GCost struct {
	Total bool    `json:"total"`
	Amt   GAmount `json:"amt"`
}
type GAssert struct {
	Strict bool    `json:"strict"`
	Amt    GAmount `json:"amt"`
}
type GPosting struct {
	Status  string   `json:"status"` // "" | "*" | "!"
	Virtual int      `json:"virtual"` // 0 none, 1 [balanced], 2 (unbalanced)
	Account string   `json:"account"`
	Amount  *GAmount `json:"amount,omitempty"`
	Cost    *GCost   `json:"cost,omitempty"`
	Assert  *GAssert `json:"assert,omitempty"`
	Comment string   `json:"comment,omitempty"`
	Indent  string   `json:"indent"`
	Sep     string   `json:"sep"`
}
type GTx struct {
	Y, M, D      int
	DateSep      string
	PadDate      bool
	Date2        *[3]int `json:"date2,omitempty"`
	Status       string
	Code         string
	Payee, Note  string // Note != "" => "payee | note"
	Desc         string
	Comment      string
	CommentLines []string
	Postings     []GPosting
}
type GDirective struct {
	Kind    string // account | commodity | include | P | Y | D
	Arg     string
	Amount  *GAmount
	Comment string
	Y, M, D int
	Sub     []string // indented subdirective lines
}
type GItem struct {
	Tx      *GTx        `json:"tx,omitempty"`
	Dir     *GDirective `json:"dir,omitempty"`
	Comment string      `json:"comment,omitempty"`
	Blank   int         `json:"blank"`
}
type GJournal struct {
	Items []GItem `json:"items"`
	EOL   string  `json:"eol"`
}

// exact value as (mantissa, exponent): Mant * 10^(EExp-Dec)
func (a GAmount) exp10() int { return a.EExp - a.Dec }
func (a GAmount) rat() *big.Rat {
	r := new(big.Rat).SetInt64(a.Mant)
	e := a.exp10()
	p := new(big.Int).Exp(big.NewInt(10), big.NewInt(int64(abs(e))), nil)
	if e >= 0 {
		return r.Mul(r, new(big.Rat).SetInt(p))
	}
	return r.Quo(r, new(big.Rat).SetInt(p))
}
func abs(x int) int {
	if x < 0 {
		return -x
	}
	return x
}

func groupDigits(s, mark string) string {
	if mark == "" || len(s) <= 3 {
		return s
	}
	var parts []string
	for len(s) > 3 {
		parts = append([]string{s[len(s)-3:]}, parts...)
		s = s[:len(s)-3]
	}
	parts = append([]string{s}, parts...)
	return strings.Join(parts, mark)
}

// number text without sign
func (a GAmount) numberText() string {
	m := a.Mant
	if m < 0 {
		m = -m
	}
	ds := strconv.FormatInt(m, 10)
	for len(ds) <= a.Dec {
		ds = "0" + ds
	}
	ip, fp := ds[:len(ds)-a.Dec], ds[len(ds)-a.Dec:]
	s := groupDigits(ip, a.Group)
	if a.Dec > 0 {
		s += a.DecMark + fp
	} else if a.Trailing {
		s += a.DecMark
	}
	if a.UseE {
		s += "E" + strconv.Itoa(a.EExp)
	}
	return s
}

func (a GAmount) symText() string {
	if a.Quoted {
		return `"` + a.Sym + `"`
	}
	return a.Sym
}

func (a GAmount) text() string {
	sign := ""
	if a.Mant < 0 {
		sign = "-"
	} else if a.Plus {
		sign = "+"
	}
	num := a.numberText()
	switch a.Side {
	case "L":
		sp := ""
		if !a.Glue {
			sp = " "
		}
		if isSigil(a.Sym) || a.Quoted {
			sp = ""
			if a.Quoted && !a.Glue {
				sp = " "
			}
		}
		if a.SignAfter {
			return a.symText() + sp + sign + num
		}
		return sign + a.symText() + sp + num
	case "R":
		sp := " "
		if a.Glue {
			sp = ""
		}
		return sign + num + sp + a.symText()
	}
	return sign + num
}

func isSigil(s string) bool {
	switch s {
	case "$", "€", "£", "¥", "₽", "₴":
		return true
	}
	return false
}

func (p GPosting) text() string {
	var sb strings.Builder
	sb.WriteString(p.Indent)
	if p.Status != "" {
		sb.WriteString(p.Status + " ")
	}
	switch p.Virtual {
	case 1:
		sb.WriteString("[" + p.Account + "]")
	case 2:
		sb.WriteString("(" + p.Account + ")")
	default:
		sb.WriteString(p.Account)
	}
	if p.Amount != nil {
		sb.WriteString(p.Sep + p.Amount.text())
		if p.Cost != nil {
			op := " @ "
			if p.Cost.Total {
				op = " @@ "
			}
			sb.WriteString(op + p.Cost.Amt.text())
		}
		if p.Assert != nil {
			op := " = "
			if p.Assert.Strict {
				op = " == "
			}
			sb.WriteString(op + p.Assert.Amt.text())
		}
	}
	if p.Comment != "" {
		sb.WriteString("  ; " + p.Comment)
	}
	return sb.String()
}

func (t GTx) header() string {
	df := func(y, m, d int) string {
		if t.PadDate {
			return fmt.Sprintf("%04d%s%02d%s%02d", y, t.DateSep, m, t.DateSep, d)
		}
		return fmt.Sprintf("%d%s%d%s%d", y, t.DateSep, m, t.DateSep, d)
	}
	s := df(t.Y, t.M, t.D)
	if t.Date2 != nil {
		s += "=" + df(t.Date2[0], t.Date2[1], t.Date2[2])
	}
	if t.Status != "" {
		s += " " + t.Status
	}
	if t.Code != "" {
		s += " (" + t.Code + ")"
	}
	if t.Note != "" {
		s += " " + t.Payee + " | " + t.Note
	} else if t.Desc != "" {
		s += " " + t.Desc
	}
	if t.Comment != "" {
		s += "  ; " + t.Comment
	}
	return s
}

func (t GTx) lines() []string {
	out := []string{t.header()}
	for _, c := range t.CommentLines {
		out = append(out, "    ; "+c)
	}
	for _, p := range t.Postings {
		out = append(out, p.text())
	}
	return out
}

func (d GDirective) lines() []string {
	var s string
	switch d.Kind {
	case "account":
		s = "account " + d.Arg
	case "commodity":
		if d.Amount != nil {
			s = "commodity " + d.Amount.text()
		} else {
			s = "commodity " + d.Arg
		}
	case "include":
		s = "include " + d.Arg
	case "P":
		s = fmt.Sprintf("P %04d-%02d-%02d %s %s", d.Y, d.M, d.D, d.Arg, d.Amount.text())
	case "Y":
		s = fmt.Sprintf("Y %d", d.Y)
	case "D":
		s = "D " + d.Amount.text()
	}
	if d.Comment != "" {
		s += "  ; " + d.Comment
	}
	out := []string{s}
	for _, l := range d.Sub {
		out = append(out, "    "+l)
	}
	return out
}

func (j GJournal) text() string {
	var sb strings.Builder
	eol := j.EOL
	if eol == "" {
		eol = "\n"
	}
	for _, it := range j.Items {
		var ls []string
		switch {
		case it.Tx != nil:
			ls = it.Tx.lines()
		case it.Dir != nil:
			ls = it.Dir.lines()
		default:
			ls = []string{"; " + it.Comment}
		}
		for _, l := range ls {
			sb.WriteString(l + eol)
		}
		for i := 0; i < it.Blank; i++ {
			sb.WriteString(eol)
		}
	}
	return sb.String()
}

// ---------------- generation ----------------

var gSeg1 = []string{"assets", "expenses", "income", "liabilities", "equity", "my", "other", "bank", "x"}
var gSeg2 = []string{"cash", "food", "bank", "checking", "salary", "rent", "card", "misc", "a b", "sub2"}
var gSegU = []string{"активы", "расходы", "café", "日本", "naïve"}
var gSegX = []string{"😀fun", "x😀y"}

func genAccount(r *rng, o genOpts) string {
	n := r.rangeInt(2, 3)
	if r.chance(10) {
		n = 4
	}
	segs := []string{pick(r, gSeg1)}
	for i := 1; i < n; i++ {
		s := pick(r, gSeg2)
		if o.NonASCII && r.chance(25) {
			s = pick(r, gSegU)
		}
		if o.NonBMP && r.chance(15) {
			s = pick(r, gSegX)
		}
		segs = append(segs, s)
	}
	return strings.Join(segs, ":")
}

var gSymsR = []string{"USD", "EUR", "RUB", "BTC", "AAPL"}
var gSymsL = []string{"$", "€", "£", "USD", "EUR"}

func genAmount(r *rng, o genOpts, sym string, mant int64, dec int) GAmount {
	a := GAmount{Mant: mant, Dec: dec, Sym: sym, DecMark: ".", Side: "R"}
	if isSigil(sym) {
		a.Side = "L"
		a.SignAfter = r.chance(40)
	} else if sym == "" {
		a.Side = "none"
	} else if r.chance(7) && isUpperCode(sym) {
		a.Side = "L"
		a.Glue = true // "USD100": G's left CODE is glued to the number
		a.SignAfter = r.chance(30)
	}
	if o.Quoted && strings.ContainsAny(sym, " 0123456789") {
		a.Quoted = true
		a.Side = pick(r, []string{"L", "R"})
		a.Glue = false
		a.SignAfter = true // "A B" -5 (a sign before the opening quote is not in G)
	}
	if r.chance(30) {
		a.DecMark = ","
	}
	intDigits := len(strconv.FormatInt(absI64(mant), 10)) - dec
	if intDigits > 3 && r.chance(50) {
		switch a.DecMark {
		case ".":
			a.Group = pick(r, []string{",", " "})
		default:
			a.Group = pick(r, []string{".", " "})
		}
		if a.Group == " " && a.Side == "R" {
			// a blank-grouped number followed by a blank and a code is still one number
		}
	}
	if dec == 0 && r.chance(8) {
		a.Trailing = true
	}
	if a.Side != "L" || a.SignAfter {
		a.Plus = mant > 0 && r.chance(6)
	}
	if o.Exponent && r.chance(4) {
		a.UseE = true
		a.EExp = r.rangeInt(-3, 3)
		a.Group = ""
	}
	// single-mark rule (DESIGN.md 4.2): one mark followed by exactly three digits with a non-zero,
	// ungrouped integer part and no exponent is a grouped integer in this project; G does not
	// contain that spelling for a value with three decimals
	if dec == 3 && a.Group == "" && !a.UseE && intDigits >= 1 && absI64(mant)/1000 != 0 {
		a.UseE = true
		a.EExp = 0
	}
	// a grouped integer without decimals written with ONE group is fine (1,234 = 1234)
	if a.Side == "R" && r.chance(10) && !a.Quoted && isUpperCode(sym) {
		a.Glue = true
	}
	return a
}

func isUpperCode(s string) bool {
	if s == "" {
		return false
	}
	for _, c := range s {
		if c < 'A' || c > 'Z' {
			return false
		}
	}
	return true
}

func absI64(x int64) int64 {
	if x < 0 {
		return -x
	}
	return x
}

var gDescs = []string{"grocery store", "coffee", "monthly rent", "salary", "lunch out", "кафе", "café déjà vu", "book shop"}

func genDesc(r *rng, o genOpts) string {
	switch {
	case o.DescUpper && r.chance(30):
		return pick(r, []string{"ATM", "ATM withdrawal", "USD exchange", "IKEA"})
	case o.DescDigit && r.chance(30):
		return pick(r, []string{"7eleven", "24h shop", "3 apples"})
	case o.DescColon && r.chance(30):
		return pick(r, []string{"foo: bar", "note:x y", "a:b shop"})
	case o.DescSigil && r.chance(30):
		return pick(r, []string{"$5 lunch", "€ exchange"})
	}
	d := pick(r, gDescs)
	if !o.NonASCII {
		for _, c := range d {
			if c > 127 {
				return "plain shop"
			}
		}
	}
	if o.NonBMP && r.chance(20) {
		d += " 😀"
	}
	return d
}

// genBalancedTx draws a transaction; residual != 0 makes it unbalanced by exactly that amount
// (in units of 10^-dec of the first commodity).
func genTx(r *rng, o genOpts) GTx {
	t := GTx{Y: r.rangeInt(2019, 2025), M: r.rangeInt(1, 12), D: r.rangeInt(1, 28), DateSep: pick(r, []string{"-", "/", "."}), PadDate: r.chance(80)}
	if r.chance(10) {
		t.Date2 = &[3]int{t.Y, t.M, r.rangeInt(1, 28)}
	}
	t.Status = pickW(r, []string{"", "*", "!"}, []int{60, 30, 10})
	if r.chance(15) {
		t.Code = pick(r, []string{"123", "A12", "chk 5"})
		if o.CodeColon && r.chance(40) {
			t.Code = "a:1"
		}
	}
	if r.chance(20) {
		t.Payee, t.Note = genDesc(r, o), pick(r, []string{"weekly", "note text", "second part"})
	} else {
		t.Desc = genDesc(r, o)
	}
	if o.Tags && r.chance(20) {
		t.Comment = pick(r, []string{"trip:paris", "a note", "k:v, other:thing", "date:2024-01-05"})
	}
	if o.TxCommentLine && r.chance(30) {
		t.CommentLines = []string{pick(r, []string{"plain comment", "b:2", "tag:value, x:y"})}
	}
	return t
}

func genIndentSep(r *rng, o genOpts) (string, string) {
	indent := strings.Repeat(" ", pickW(r, []int{4, 2, 1, 8}, []int{70, 15, 5, 10}))
	if r.chance(5) {
		indent = "\t"
	}
	sep := strings.Repeat(" ", pickW(r, []int{2, 3, 6, 12}, []int{55, 15, 15, 15}))
	if o.TabSep && r.chance(30) {
		sep = "\t"
	}
	return indent, sep
}
