package main

import (
	"bufio"
	"encoding/hex"
	"fmt"
	"os"
	"path/filepath"
	"strings"
)

// Gallina literal helpers. Byte strings are written as (hx "…hex…").
func gBytes(s string) string { return `(hx "` + hex.EncodeToString([]byte(s)) + `")` }
func gBool(b bool) string {
	if b {
		return "true"
	}
	return "false"
}
func gN(n uint64) string { return fmt.Sprintf("%d%%N", n) }
func gZ(z int64) string {
	if z < 0 {
		return fmt.Sprintf("(%d)%%Z", z)
	}
	return fmt.Sprintf("%d%%Z", z)
}
func gNat(n int) string { return fmt.Sprintf("%d%%nat", n) }
func gList(items []string) string {
	return "[" + strings.Join(items, "; ") + "]"
}
func gOpt(ok bool, v string) string {
	if ok {
		return "(Some " + v + ")"
	}
	return "None"
}

// shardWriter writes cases round-robin into nshards .v files that import the property's Tie module.
type shardWriter struct {
	dir     string
	prop    string
	files   []*os.File
	bufs    []*bufio.Writer
	counts  []int
	n       int
	nshards int
}

func newShardWriter(dir, prop string, nshards int, caseType string) (*shardWriter, error) {
	w := &shardWriter{dir: dir, prop: prop, nshards: nshards}
	for i := 0; i < nshards; i++ {
		f, err := os.Create(filepath.Join(dir, fmt.Sprintf("cases_%s_%02d.v", prop, i)))
		if err != nil {
			return nil, err
		}
		b := bufio.NewWriterSize(f, 1<<20)
		fmt.Fprintf(b, "From HL Require Import Tie.%s.\nLocal Open Scope N_scope.\nDefinition cases : list (N * %s) := [\n", prop, caseType)
		w.files = append(w.files, f)
		w.bufs = append(w.bufs, b)
		w.counts = append(w.counts, 0)
	}
	return w, nil
}

// add writes one case (a Gallina term of the case type) with its id.
func (w *shardWriter) add(id int, term string) {
	k := w.n % w.nshards
	if w.counts[k] > 0 {
		w.bufs[k].WriteString(";\n")
	}
	fmt.Fprintf(w.bufs[k], " (%d, %s)", id, term)
	w.counts[k]++
	w.n++
}

func (w *shardWriter) close() error {
	for i := range w.files {
		fmt.Fprintf(w.bufs[i], "\n].\nDefinition R := Eval vm_compute in judge_all cases.\nSet Printing Width 200.\nSet Printing Depth 1000000.\nPrint R.\n")
		if err := w.bufs[i].Flush(); err != nil {
			return err
		}
		if err := w.files[i].Close(); err != nil {
			return err
		}
	}
	return nil
}
