package main

import (
	"encoding/json"
	"fmt"
	"strings"

	"github.com/juev/hledger-lsp/internal/parser"
)

func init() { runners["C03"] = runC03 }

type c03Case struct {
	Journal *GJournal `json:"journal,omitempty"` // a G journal (structure known) ...
	Hex     string    `json:"hex,omitempty"`     // ... or arbitrary bytes (parser tie only)
	Flags   int       `json:"flags"`
}

func gIA(a GAmount) string {
	return fmt.Sprintf("(mkIA (mkDec %s %s) %s %s)", gZ(a.Mant), gZ(int64(a.exp10())), gBytes(a.Sym), gBool(a.Side == "L" || a.Sym == "")) // no commodity: the zero Commodity value has Position left
}
func gIStatus(s string) string {
	switch s {
	case "*":
		return "StCleared"
	case "!":
		return "StPending"
	}
	return "StNone"
}
func gIPosting(p GPosting) string {
	amt, co, as := "None", "None", "None"
	if p.Amount != nil {
		amt = "(Some " + gIA(*p.Amount) + ")"
		if p.Cost != nil {
			co = fmt.Sprintf("(Some (%s, %s))", gBool(p.Cost.Total), gIA(p.Cost.Amt))
		}
		if p.Assert != nil {
			as = fmt.Sprintf("(Some (%s, %s))", gBool(p.Assert.Strict), gIA(p.Assert.Amt))
		}
	}
	return fmt.Sprintf("(mkIP %s %s %s %s %s %s %s)", gIStatus(p.Status), []string{"VNone", "VBalanced", "VUnbalanced"}[p.Virtual], gBytes(p.Account), amt, co, as, gBytes(p.Comment))
}
func gD3(y, m, d int) string { return fmt.Sprintf("(%s, %s, %s)", gZ(int64(y)), gZ(int64(m)), gZ(int64(d))) }
func gITx(t GTx) string {
	d2 := "None"
	if t.Date2 != nil {
		d2 = "(Some " + gD3(t.Date2[0], t.Date2[1], t.Date2[2]) + ")"
	}
	desc, payee, note := t.Desc, "", ""
	if t.Note != "" {
		payee, note = t.Payee, t.Note
		desc = payee + " | " + note
	}
	var cmts []string
	if t.Comment != "" {
		cmts = append(cmts, t.Comment)
	}
	// comment lines inside the transaction are part of what the journal says
	cmts = append(cmts, t.CommentLines...)
	var ps []string
	for _, p := range t.Postings {
		ps = append(ps, gIPosting(p))
	}
	return fmt.Sprintf("(mkIT %s %s %s %s %s %s %s %s %s)", gD3(t.Y, t.M, t.D), d2, gIStatus(t.Status), gBytes(t.Code), gBytes(desc), gBytes(payee), gBytes(note), gBytesList(cmts), gList(ps))
}
func gIStruct(j GJournal) string {
	var txs, dirs, incs, cmts []string
	for _, it := range j.Items {
		switch {
		case it.Tx != nil:
			txs = append(txs, gITx(*it.Tx))
		case it.Dir != nil:
			d := it.Dir
			switch d.Kind {
			case "account":
				dirs = append(dirs, "(IAccount "+gBytes(d.Arg)+")")
			case "commodity":
				sym := d.Arg
				if d.Amount != nil {
					sym = d.Amount.Sym
				}
				dirs = append(dirs, "(ICommodity "+gBytes(sym)+")")
			case "include":
				incs = append(incs, gBytes(d.Arg))
			case "P":
				dirs = append(dirs, fmt.Sprintf("(IPrice %s %s %s)", gD3(d.Y, d.M, d.D), gBytes(d.Arg), gIA(*d.Amount)))
			case "Y":
				dirs = append(dirs, "(IYear "+gZ(int64(d.Y))+")")
			case "D":
				dirs = append(dirs, "(IDefault "+gBytes(d.Amount.Sym)+")")
			}
		default:
			cmts = append(cmts, gBytes(it.Comment))
		}
	}
	return fmt.Sprintf("(mkIS %s %s %s %s)", gList(txs), gList(dirs), gList(incs), gList(cmts))
}

// one risky class (DESIGN.md 6.3 / KNOWN_FINDINGS) at most per case, so that the class is identifiable
var c03Classes = []string{"", "crlf", "desc_upper", "desc_digit", "desc_colon", "desc_sigil", "tab_sep", "tx_comment_line", "code_colon", "lower_sym_cost", "number_notation"}

func c03GenTx(r *rng, st *stats, o genOpts, risky string) GTx {
	t := genTx(r, o)
	n := r.rangeInt(0, 4)
	for i := 0; i < n; i++ {
		ind, sep := genIndentSep(r, o)
		p := GPosting{Account: genAccount(r, o), Indent: ind, Sep: sep, Status: pickW(r, []string{"", "*", "!"}, []int{85, 10, 5}), Virtual: pickW(r, []int{0, 1, 2}, []int{80, 10, 10})}
		if o.NonASCII && r.chance(15) {
			// the first segment outside ASCII too (ordinary, [balanced] and (unbalanced) postings alike)
			if i := strings.Index(p.Account, ":"); i > 0 {
				p.Account = pick(r, gSegU) + p.Account[i:]
				st.count("account:non-ascii-first-segment")
			}
		}
		if r.chance(80) {
			sym := pick(r, append(append([]string{}, gSymsR...), "$", "€", "", "apples"))
			if o.Quoted && r.chance(12) {
				sym = pick(r, []string{"A B", "my fund", "X1"})
			}
			mant, dec := int64(r.rangeInt(-200000, 200000)), pickW(r, []int{2, 0, 1, 4}, []int{60, 20, 10, 10})
			if r.chance(8) {
				mant, dec = int64(r.rangeInt(-999, 999)), 3 // 0.125, -0.500: three decimals under a zero integer part
				st.count("amount:zero-int-three-decimals")
			}
			a := genAmount(r, o, sym, mant, dec)
			if risky != "number_notation" {
				a.UseE, a.EExp = false, 0
				if a.Dec == 3 && (a.Mant >= 1000 || a.Mant <= -1000) {
					a.Dec = 2
				}
				if a.Side == "L" && a.Glue {
					a.Side, a.Glue = "R", false
				}
			}
			p.Amount = &a
			lower := sym == "apples"
			if r.chance(15) && (!lower || risky == "lower_sym_cost") {
				ca := genAmount(r, o, pick(r, []string{"USD", "$", "EUR"}), int64(r.rangeInt(1, 99999)), 2)
				ca.Plus, ca.UseE, ca.EExp = false, false, 0
				if ca.Side == "L" && ca.Glue {
					ca.Side, ca.Glue = "R", false
				}
				p.Cost = &GCost{Total: r.chance(40), Amt: ca}
				st.count("posting:cost")
			}
			if r.chance(10) && (!lower || risky == "lower_sym_cost") {
				aa := genAmount(r, o, pick(r, []string{"USD", "$", "EUR"}), int64(r.rangeInt(-99999, 99999)), 2)
				aa.UseE, aa.EExp = false, 0
				if aa.Side == "L" && aa.Glue {
					aa.Side, aa.Glue = "R", false
				}
				p.Assert = &GAssert{Strict: r.chance(30), Amt: aa}
				st.count("posting:assertion")
			}
		}
		if r.chance(15) {
			p.Comment = pick(r, []string{"a note", "trip:rome", "k:v, other:thing", "ünï note", "note:see id:7, id:9", "ünï note, trip:rome"})
		}
		t.Postings = append(t.Postings, p)
	}
	return t
}

func c03Gen(r *rng, st *stats) c03Case {
	if r.chance(12) {
		cc := c06Gen(r, st)
		st.count("source:arbitrary-bytes")
		return c03Case{Hex: cc.Hex}
	}
	cls := 0
	if r.chance(30) {
		cls = r.rangeInt(1, len(c03Classes)-1)
	}
	risky := c03Classes[cls]
	o := genOpts{NonASCII: true, NonBMP: r.chance(30), Tags: true, Exponent: risky == "number_notation", Directives: true,
		DescUpper: risky == "desc_upper", DescDigit: risky == "desc_digit", DescColon: risky == "desc_colon", DescSigil: risky == "desc_sigil",
		TabSep: risky == "tab_sep", TxCommentLine: risky == "tx_comment_line", CodeColon: risky == "code_colon"}
	j := GJournal{EOL: "\n"}
	if risky == "crlf" {
		j.EOL = "\r\n"
	}
	n := r.rangeInt(1, 8)
	for i := 0; i < n; i++ {
		k := r.intn(100)
		switch {
		case k < 60:
			t := c03GenTx(r, st, o, risky)
			j.Items = append(j.Items, GItem{Tx: &t, Blank: r.intn(3)})
			st.count("item:transaction")
		case k < 68:
			j.Items = append(j.Items, GItem{Dir: &GDirective{Kind: "account", Arg: genAccount(r, o)}, Blank: r.intn(2)})
			st.count("item:account")
		case k < 75:
			a := genAmount(r, genOpts{}, pick(r, []string{"USD", "EUR", "$"}), 100000, 2)
			a.Group, a.DecMark, a.Plus, a.Trailing = ",", ".", false, false
			if a.Side == "L" && a.Glue {
				a.Side, a.Glue = "R", false
			}
			d := &GDirective{Kind: "commodity", Amount: &a}
			if r.chance(40) {
				d = &GDirective{Kind: "commodity", Arg: pick(r, []string{"USD", "EUR", "$"})}
			}
			j.Items = append(j.Items, GItem{Dir: d, Blank: r.intn(2)})
			st.count("item:commodity")
		case k < 80:
			j.Items = append(j.Items, GItem{Dir: &GDirective{Kind: "include", Arg: pick(r, []string{"other.journal", "sub/2024.journal", "/abs/path.journal", "~/x.journal", "*.journal"})}, Blank: r.intn(2)})
			st.count("item:include")
		case k < 86:
			a := genAmount(r, genOpts{}, "USD", int64(r.rangeInt(1, 99999)), 2)
			a.Side, a.Glue, a.Plus = "R", false, false
			j.Items = append(j.Items, GItem{Dir: &GDirective{Kind: "P", Y: 2024, M: r.rangeInt(1, 12), D: r.rangeInt(1, 28), Arg: pick(r, []string{"EUR", "AAPL", "€"}), Amount: &a}, Blank: r.intn(2)})
			st.count("item:price")
		case k < 89:
			j.Items = append(j.Items, GItem{Dir: &GDirective{Kind: "Y", Y: r.rangeInt(1990, 2030)}, Blank: r.intn(2)})
			st.count("item:year")
		case k < 92:
			a := genAmount(r, genOpts{}, pick(r, []string{"USD", "$"}), 100000, 2)
			a.Group, a.DecMark, a.Plus = ",", ".", false
			if a.Side == "L" && a.Glue {
				a.Side, a.Glue = "R", false
			}
			j.Items = append(j.Items, GItem{Dir: &GDirective{Kind: "D", Amount: &a}, Blank: r.intn(2)})
			st.count("item:default-commodity")
		default:
			j.Items = append(j.Items, GItem{Comment: pick(r, []string{"a comment line", "tag:value", "ünï 😀 comment"}), Blank: r.intn(2)})
			st.count("item:comment")
		}
	}
	if risky != "" {
		st.count("risky:" + risky)
	}
	return c03Case{Journal: &j, Flags: cls}
}

func c03Run(c c03Case) (string, error) {
	var text, intended string
	if c.Journal != nil {
		text = c.Journal.text()
		intended = "(Some " + gIStruct(*c.Journal) + ")"
	} else {
		text = unhex(c.Hex)
		intended = "None"
	}
	j, errs := parser.Parse(text)
	var es []string
	for _, e := range errs {
		es = append(es, fmt.Sprintf("(%d, %d)", e.Pos.Line, e.Pos.Column))
	}
	return fmt.Sprintf("(mkCase %s %s %s %s %d)", gBytes(text), gJournal(j), gList(es), intended, c.Flags), nil
}

func runC03(o opts) error {
	st := newStats("C03", o.seed, "case = a journal of 1..8 items from G (transactions with dates in 3 separator styles, secondary dates, status, code, description or payee|note incl. non-ASCII and non-BMP text, header comments with tags, 0..4 postings with status marks, virtual kinds, amounts in every notation, costs, assertions, comments; account / commodity / include / P / Y / D directives; comment lines) printed with layout variation and parsed by the real parser; 30% of the cases enable exactly one risky spelling class; 12% are arbitrary bytes for the parser tie only; non-trivial = at least one transaction with a posting; distinct by hash")
	return runGeneric(o, st, "case", func(raw json.RawMessage) (string, bool, string, error) {
		var c c03Case
		if err := json.Unmarshal(raw, &c); err != nil {
			return "", false, "", err
		}
		t, err := c03Run(c)
		return t, true, string(raw), err
	}, func(r *rng, i int) (interface{}, string, bool, error) {
		c := c03Gen(r, st)
		st.count("source:generated")
		t, err := c03Run(c)
		nt := c.Journal != nil && strings.Contains(c.Journal.text(), ":")
		return c, t, nt, err
	})
}
