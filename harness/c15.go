package main

import (
	"context"
	"crypto/sha256"
	"encoding/hex"
	"encoding/json"
	"fmt"
	"os"
	"os/exec"
	"path/filepath"
	"sort"
	"strings"

	"go.lsp.dev/protocol"
)

func init() { runners["C15"] = runC15; runners["c15child"] = runC15Child }

type c15Case struct {
	Files map[string]string `json:"files"` // main includes a and b
	Open  []string          `json:"open"`  // documents opened, in this order
	Reps  int               `json:"reps"`
}

var c15Payees = []string{"shop", "cafe", "landlord", "employer", "market"}

func c15File(r *rng, st *stats, inc []string) string {
	var sb strings.Builder
	for _, i := range inc {
		sb.WriteString("include " + i + ".journal\n")
	}
	if r.chance(40) {
		sb.WriteString("commodity " + pick(r, []string{"1,000.00 USD", "1.000,00 EUR", "1000.00 USD", "EUR 1,000.00"}) + "\n")
		st.count("decl:commodity-format")
	}
	if r.chance(40) {
		sb.WriteString("account " + pick(r, c20Accts) + "\n")
	}
	n := r.rangeInt(2, 5)
	if r.chance(35) {
		// a longer file: more than a dozen symbols per answer (sorting routines switch algorithm with the size)
		n += r.rangeInt(4, 7)
		st.count("file:long")
	}
	for i := 0; i < n; i++ {
		sb.WriteString(fmt.Sprintf("2024-%02d-%02d %s\n", r.rangeInt(1, 12), r.rangeInt(1, 28), pick(r, c15Payees)))
		if r.chance(35) {
			// off balance in 2..3 commodities
			syms := []string{"USD", "EUR", "GBP", "CHF"}
			k := r.rangeInt(2, 3)
			for j := 0; j < k; j++ {
				sb.WriteString(fmt.Sprintf("    %s  %d %s\n", pick(r, c20Accts), r.rangeInt(1, 90), syms[j]))
			}
			st.count("tx:multi-commodity-unbalanced")
		} else {
			a, b := pick(r, c20Accts), pick(r, c20Accts)
			v := r.rangeInt(1, 500)
			sym := pick(r, []string{"USD", "EUR"})
			sb.WriteString(fmt.Sprintf("    %s  %d %s  ; trip:%s\n    %s  -%d %s\n", a, v, sym, pick(r, []string{"rome", "paris"}), b, v, sym))
		}
		sb.WriteString("\n")
	}
	// a header followed by an empty line: inline completion offers the payee's posting template
	sb.WriteString("2024-12-30 " + pick(r, c15Payees) + "\n\n")
	return sb.String()
}

func c15Gen(r *rng, st *stats) c15Case {
	c := c15Case{Files: map[string]string{}, Reps: 24}
	c.Files["main"] = c15File(r, st, []string{"a", "b"})
	c.Files["a"] = c15File(r, st, nil)
	c.Files["b"] = c15File(r, st, nil)
	c.Open = []string{"main"}
	if r.chance(70) {
		c.Open = append(c.Open, pick(r, []string{"a", "b"}))
		st.count("open:two-documents")
		if r.chance(35) {
			c.Open = []string{"main", "a", "b"}
			if r.chance(50) {
				c.Open = []string{"b", "main", "a"}
			}
			st.count("open:three-documents")
		}
	}
	return c
}

// c15Earlier is the document without its declaration directives (an earlier version of it).
func c15Earlier(text string) string {
	var out []string
	skip := false
	for _, l := range strings.Split(text, "\n") {
		if strings.HasPrefix(l, "account ") || strings.HasPrefix(l, "commodity ") || strings.HasPrefix(l, "D ") {
			skip = true
			continue
		}
		if skip && (strings.HasPrefix(l, " ") || strings.HasPrefix(l, "\t")) {
			continue
		}
		skip = false
		out = append(out, l)
	}
	return strings.Join(out, "\n")
}

// c15Observe runs one fresh server on dir and returns the fingerprint of every response.
// history = the same final state is reached through an editing history: every open document was
// first changed to an earlier version (analysed, caches filled) and then back to its final text.
func c15Observe(dir string, c c15Case, hasRoot bool, msgs *[]string, history bool) ([]string, []string, error) {
	root := ""
	if hasRoot {
		root = dir
	}
	srv, stub, base := newServerAt(root, nil)
	ctx := context.Background()
	var names, fps []string
	add := func(name string, v interface{}) {
		b, _ := json.Marshal(v)
		h := sha256.Sum256(b)
		names = append(names, name)
		fps = append(fps, hex.EncodeToString(h[:6]))
	}
	for _, n := range c.Open {
		u := fileURI(filepath.Join(dir, n+".journal"))
		_ = srv.DidOpen(ctx, &protocol.DidOpenTextDocumentParams{TextDocument: protocol.TextDocumentItem{URI: u, Text: c.Files[n]}})
		if !quiesce(base) {
			return nil, nil, fmt.Errorf("analysis did not finish")
		}
	}
	// every run ends with a full-text change to the final content, so that the workspace index
	// has seen the open buffers; the history run visits the earlier versions first
	change := func(n, text string, version int32) {
		u := fileURI(filepath.Join(dir, n+".journal"))
		_ = srv.DidChange(ctx, &protocol.DidChangeTextDocumentParams{
			TextDocument:   protocol.VersionedTextDocumentIdentifier{TextDocumentIdentifier: protocol.TextDocumentIdentifier{URI: u}, Version: version},
			ContentChanges: []protocol.TextDocumentContentChangeEvent{{Text: text}}})
		quiesce(base)
	}
	if history {
		// first a version that uses a name the file never had (the name lists of the file change,
		// every cache is rebuilt while no declaration is in force), then the version without the
		// declarations, then -- below -- the final text, which only adds declarations of names
		// the file already uses
		for _, n := range c.Open {
			change(n, c15Earlier(c.Files[n])+"2024-12-31 history\n    zz:history:"+n+"  1 ZZH\n    zz:other\n", 2)
		}
		for _, n := range c.Open {
			change(n, c15Earlier(c.Files[n]), 3)
		}
		for _, n := range c.Open { // look at the others again while the earlier versions are in force
			change(n, c15Earlier(c.Files[n]), 3)
		}
	}
	for _, n := range c.Open {
		change(n, c.Files[n], 4)
	}
	for _, n := range c.Open { // and once more, now that every buffer is final
		change(n, c.Files[n], 5)
	}
	for _, n := range c.Open {
		u := fileURI(filepath.Join(dir, n+".journal"))
		td := protocol.TextDocumentIdentifier{URI: u}
		if p, ok := stub.lastPublished(u); ok {
			add("diagnostics:"+n, p.Diagnostics)
			if msgs != nil {
				for _, d := range p.Diagnostics {
					if code, _ := d.Code.(string); code == "UNBALANCED" {
						var syms []string
						for _, part := range strings.Split(strings.TrimPrefix(d.Message, "transaction does not balance: "), "; ") {
							if i := strings.LastIndex(part, " off by "); i >= 0 {
								syms = append(syms, gBytes(part[:i]))
							}
						}
						*msgs = append(*msgs, gList(syms))
					}
				}
			}
		}
		lines := strings.Split(c.Files[n], "\n")
		for li, ln := range lines {
			if li > 14 {
				break
			}
			for _, ch := range []int{0, 6, len(ln)} {
				if ch > len(ln) {
					continue
				}
				pos := protocol.TextDocumentPositionParams{TextDocument: td, Position: protocol.Position{Line: uint32(li), Character: uint32(ch)}}
				cp, _ := srv.Completion(ctx, &protocol.CompletionParams{TextDocumentPositionParams: pos})
				if cp != nil {
					var labels []string
					for _, it := range cp.Items {
						if it.Kind != protocol.CompletionItemKindConstant {
							labels = append(labels, it.Label+"|"+it.Detail)
						}
					}
					add(fmt.Sprintf("completion:%s:%d:%d", n, li, ch), labels)
				}
				rf, _ := srv.References(ctx, &protocol.ReferenceParams{TextDocumentPositionParams: pos, Context: protocol.ReferenceContext{IncludeDeclaration: true}})
				add(fmt.Sprintf("references:%s:%d:%d", n, li, ch), rf)
				hv, _ := srv.Hover(ctx, &protocol.HoverParams{TextDocumentPositionParams: pos})
				add(fmt.Sprintf("hover:%s:%d:%d", n, li, ch), hv)
				df, _ := srv.Definition(ctx, &protocol.DefinitionParams{TextDocumentPositionParams: pos})
				add(fmt.Sprintf("definition:%s:%d:%d", n, li, ch), df)
			}
		}
		for li := range lines {
			// inline completion on a blank line after a header
			ic, _ := srv.InlineCompletion(ctx, json.RawMessage(fmt.Sprintf(`{"textDocument":{"uri":%q},"position":{"line":%d,"character":0}}`, string(u), li)))
			if ic != nil && len(ic.Items) > 0 {
				add(fmt.Sprintf("inline:%s:%d", n, li), ic)
			}
		}
		sym, _ := srv.DocumentSymbol(ctx, &protocol.DocumentSymbolParams{TextDocument: td})
		add("symbols:"+n, sym)
		fm, _ := srv.Format(ctx, &protocol.DocumentFormattingParams{TextDocument: td})
		add("format:"+n, fm)
	}
	for _, q := range []string{"", "a", "shop"} {
		ws, _ := srv.WorkspaceSymbol(ctx, &protocol.WorkspaceSymbolParams{Query: q})
		add("workspace-symbol:"+q, ws)
	}
	for _, n := range c.Open {
		_ = srv.DidClose(ctx, &protocol.DidCloseTextDocumentParams{TextDocument: protocol.TextDocumentIdentifier{URI: fileURI(filepath.Join(dir, n+".journal"))}})
	}
	return names, fps, nil
}

// child process: observe once, print fingerprints as JSON
func runC15Child(o opts) error {
	data, err := os.ReadFile(o.replay)
	if err != nil {
		return err
	}
	var c c15Case
	if err := json.Unmarshal(data, &c); err != nil {
		return err
	}
	_, fps, err := c15Observe(o.corpus, c, o.n == 1, nil, false)
	if err != nil {
		return err
	}
	b, _ := json.Marshal(fps)
	fmt.Println(string(b))
	return nil
}

func c15Run(c c15Case, st *stats) (string, error) {
	fm := map[string]string{}
	for n, t := range c.Files {
		fm[n+".journal"] = t
	}
	dir, err := tempWorkspace(fm)
	if err != nil {
		return "", err
	}
	defer os.RemoveAll(dir)
	var names []string
	var all [][]string
	var msgs []string
	for _, hasRoot := range []bool{true, false} {
		var ns []string
		var runs [][]string
		for i := 0; i < c.Reps; i++ {
			n, fps, err := c15Observe(dir, c, hasRoot, &msgs, false)
			if err != nil {
				return "", err
			}
			ns = n
			runs = append(runs, fps)
		}
		// the same final state reached through an editing history
		for i := 0; i < 2; i++ {
			_, fps, err := c15Observe(dir, c, hasRoot, nil, true)
			if err != nil {
				return "", err
			}
			runs = append(runs, fps)
		}
		// fresh processes
		cf := filepath.Join(dir, "case.json")
		b, _ := json.Marshal(c)
		_ = os.WriteFile(cf, b, 0o644)
		nflag := "0"
		if hasRoot {
			nflag = "1"
		}
		for i := 0; i < 2; i++ {
			out, err := exec.Command(os.Args[0], "-prop", "c15child", "-replay", cf, "-corpus", dir, "-n", nflag, "-out", dir).Output()
			if err != nil {
				return "", fmt.Errorf("child process: %v", err)
			}
			var fps []string
			if err := json.Unmarshal(out, &fps); err != nil {
				return "", fmt.Errorf("child output: %v", err)
			}
			runs = append(runs, fps)
		}
		for k, name := range ns {
			tag := name
			if !hasRoot {
				tag = "noroot:" + name
			}
			names = append(names, tag)
			var col []string
			for _, run := range runs {
				if k < len(run) {
					col = append(col, run[k])
				} else {
					col = append(col, "missing")
				}
			}
			all = append(all, col)
		}
	}
	// Gallina: per request the class index of every repetition; request kind code for the classifiers
	var items []string
	for k, col := range all {
		cls := map[string]int{}
		var idx []string
		for _, f := range col {
			if _, ok := cls[f]; !ok {
				cls[f] = len(cls)
			}
			idx = append(idx, fmt.Sprint(cls[f]))
		}
		kind := 0
		switch {
		case strings.Contains(names[k], "completion:"):
			kind = 1
		case strings.Contains(names[k], "workspace-symbol:"):
			kind = 2
		case strings.Contains(names[k], "inline:"):
			kind = 3
		case strings.Contains(names[k], "diagnostics:"):
			kind = 4
		case strings.Contains(names[k], "format:"):
			kind = 5
		}
		if len(cls) > 1 {
			st.count("nondeterministic:" + strings.SplitN(strings.TrimPrefix(names[k], "noroot:"), ":", 2)[0])
		}
		items = append(items, fmt.Sprintf("(%d, %s)", kind, gList(idx)))
	}
	_ = sort.Strings
	if len(msgs) > 60 {
		msgs = msgs[:60]
	}
	return fmt.Sprintf("(mkCase %s %s)", gList(items), gList(msgs)), nil
}

func runC15(o opts) error {
	st := newStats("C15", o.seed, "case = a directory main (includes a, b) with shared payees, accounts, commodities, conflicting commodity formats and transactions off balance in 2..3 commodities; one or two documents open; every response (diagnostics, completion lists with order and details, references, hover, definition, document and workspace symbols, inline completion, formatting) is fingerprinted on 24 fresh in-process servers, 2 servers that reach the same final state through an editing history (every open document changed to a version without its declarations, analysed, and changed back) and 2 fresh processes, with and without workspace root; non-trivial = a multi-commodity imbalance or two open documents; distinct by hash")
	return runGeneric(o, st, "case", func(raw json.RawMessage) (string, bool, string, error) {
		var c c15Case
		if err := json.Unmarshal(raw, &c); err != nil {
			return "", false, "", err
		}
		t, err := c15Run(c, st)
		return t, true, string(raw), err
	}, func(r *rng, i int) (interface{}, string, bool, error) {
		c := c15Gen(r, st)
		st.count("source:generated")
		t, err := c15Run(c, st)
		return c, t, true, err
	})
}
