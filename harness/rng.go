package main

// splitmix64: every random choice of a run derives from one state seeded by VERIF_SEED.
type rng struct{ s uint64 }

func newRng(seed uint64) *rng { return &rng{s: seed*0x9E3779B97F4A7C15 + 0x1234567} }

func (r *rng) next() uint64 {
	r.s += 0x9E3779B97F4A7C15
	z := r.s
	z = (z ^ (z >> 30)) * 0xBF58476D1CE4E5B9
	z = (z ^ (z >> 27)) * 0x94D049BB133111EB
	return z ^ (z >> 31)
}

// intn returns a value in [0,n).
func (r *rng) intn(n int) int {
	if n <= 1 {
		return 0
	}
	return int(r.next() % uint64(n))
}

func (r *rng) rangeInt(lo, hi int) int { return lo + r.intn(hi-lo+1) }
func (r *rng) chance(pct int) bool    { return r.intn(100) < pct }
func (r *rng) fork() *rng             { return &rng{s: r.next()} }

func pick[T any](r *rng, xs []T) T { return xs[r.intn(len(xs))] }

// weighted pick: weights parallel to xs
func pickW[T any](r *rng, xs []T, ws []int) T {
	tot := 0
	for _, w := range ws {
		tot += w
	}
	k := r.intn(tot)
	for i, w := range ws {
		if k < w {
			return xs[i]
		}
		k -= w
	}
	return xs[len(xs)-1]
}
