package main

import (
	"context"
	"encoding/json"
	"fmt"
	"os"
	"path/filepath"
	"sort"
	"strings"

	"go.lsp.dev/protocol"

	"github.com/juev/hledger-lsp/internal/analyzer"
	"github.com/juev/hledger-lsp/internal/parser"
)

func init() { runners["C16"] = runC16 }

type c16Req struct {
	Line    uint32 `json:"line"`
	Char    uint32 `json:"char"`
	Trigger string `json:"trigger,omitempty"`
}
type c16Case struct {
	Main    string   `json:"main"`          // the open document
	Sub     string   `json:"sub,omitempty"` // included file ("" = none)
	HasRoot bool     `json:"has_root"`
	Fuzzy   bool     `json:"fuzzy"`
	Counts  bool     `json:"counts"`
	Max     int      `json:"max"`
	Max2    int      `json:"max2"`
	Reqs    []c16Req `json:"reqs"`
}

var c16Accts = []string{"assets:cash", "assets:bank:checking", "assets:my bank:savings", "bank:fees", "expenses:food", "expenses:food:lunch", "expenses:Food2",
	"income:job", "expenses:🍕pizza", "Активы:Банк", "активы:наличные", "expenses:日本:食", "liabilities:card", "equity:opening balances", "assets:bank:savings"}

func c16Journal(r *rng, st *stats, withInclude bool) string {
	var sb strings.Builder
	if withInclude {
		sb.WriteString("include sub.journal\n")
	}
	if r.chance(40) {
		sb.WriteString("account " + pick(r, c16Accts) + "\n")
	}
	if r.chance(30) {
		sb.WriteString("commodity " + pick(r, []string{"USD", "EUR", "1,000.00 GBP"}) + "\n")
	}
	n := r.rangeInt(2, 7)
	for i := 0; i < n; i++ {
		sb.WriteString(fmt.Sprintf("2024-%02d-%02d %s%s\n", r.rangeInt(1, 12), r.rangeInt(1, 28), pick(r, []string{"", "* ", "! "}), pick(r, append(c12Payees[:8], "Кафе Пушкин", "Café Zoë"))))
		k := r.rangeInt(1, 3)
		for j := 0; j < k; j++ {
			line := fmt.Sprintf("    %s  %d %s", pick(r, c16Accts), r.rangeInt(1, 90), pick(r, []string{"USD", "EUR", "GBP", "₽"}))
			if r.chance(25) {
				line += "  ; " + pick(r, []string{"trip:rome", "trip:paris", "who:me", "project:alpha, trip:oslo"})
			}
			sb.WriteString(line + "\n")
		}
		sb.WriteString("    " + pick(r, c16Accts) + "\n\n")
	}
	return sb.String()
}

// lines being typed, appended to the document; the cursor positions are drawn on them
var c16Typing = []string{
	"    ", "    exp", "    expenses:", "    expenses:fo", "    EXP", "    assets:my bank:sav", "    a:b:c", "    ass  ", "    assets:cash  12 ", "    assets:cash  12 U", "    assets:cash  12   U",
	"    assets:cash  $", "    assets:cash  12 USD @ ", "    assets:cash  12 USD ; tr", "    assets:cash  12 USD ; trip:", "    assets:cash  12 USD ; trip:ro", "    assets:cash  1 USD ; a:b, wh",
	"2024-05-05 ", "2024-05-05 sh", "2024-05-05 * ca", "2024-05-05 ! Каф", "account ", "account exp", "apply account as", "commodity ", "commodity U", "    * exp", "    (exp", "    [assets:ba",
	"    expenses:🍕pizza  10 E", "    expenses:🍕pizza  10 ", "    expenses:𠮷野家  20 U", "    expenses:🍕", "\tassets:", "", "20", "    активы:", "    акт", "    expenses:日", "; comment tr", "    bnk", "    fd", "    e:f",
}

func gStrList(l []string) string { return gBytesList(l) }

func gCounts(m map[string]int) string {
	var keys []string
	for k := range m {
		keys = append(keys, k)
	}
	sort.Strings(keys)
	var items []string
	for _, k := range keys {
		items = append(items, fmt.Sprintf("(%s, %s)", gBytes(k), gZ(int64(m[k]))))
	}
	return gList(items)
}

// usage counts computed by the harness itself from the parsed files in scope (postings per
// account, transactions per payee): the oracle's notion of "more frequently used"
func trueCounts(texts []string) (map[string]int, map[string]int) {
	acc, pay := map[string]int{}, map[string]int{}
	for _, t := range texts {
		j, _ := parser.Parse(t)
		for _, tx := range j.Transactions {
			p := tx.Payee
			if p == "" {
				p = tx.Description
			}
			if p != "" {
				pay[p]++
			}
			for _, po := range tx.Postings {
				acc[po.Account.Name]++
			}
		}
	}
	return acc, pay
}

func gAnalysis(res *analyzer.AnalysisResult) string {
	var bp []string
	var keys []string
	for k := range res.Accounts.ByPrefix {
		keys = append(keys, k)
	}
	sort.Strings(keys)
	for _, k := range keys {
		bp = append(bp, fmt.Sprintf("(%s, %s)", gBytes(k), gStrList(res.Accounts.ByPrefix[k])))
	}
	var tv []string
	keys = keys[:0]
	for k := range res.TagValues {
		keys = append(keys, k)
	}
	sort.Strings(keys)
	for _, k := range keys {
		tv = append(tv, fmt.Sprintf("(%s, %s)", gBytes(k), gStrList(res.TagValues[k])))
	}
	return fmt.Sprintf("(mkAn %s %s %s %s %s %s %s %s %s %s)", gStrList(res.Accounts.All), gList(bp), gStrList(res.Payees), gStrList(res.Commodities), gStrList(res.Tags), gList(tv),
		gCounts(res.AccountCounts), gCounts(res.PayeeCounts), gCounts(res.CommodityCounts), gCounts(res.TagCounts))
}

func c16Gen(r *rng, st *stats) c16Case {
	c := c16Case{Fuzzy: r.chance(60), Counts: r.chance(60), HasRoot: r.chance(40)}
	c.Max = pickW(r, []int{1, 2, 3, 5, 10, 50, 200}, []int{8, 10, 14, 18, 20, 20, 10})
	c.Max2 = c.Max + r.rangeInt(1, 20)
	withSub := r.chance(40)
	c.Main = c16Journal(r, st, withSub)
	if withSub {
		c.Sub = c16Journal(r, st, false)
		st.count("files:2")
	} else {
		st.count("files:1")
	}
	base := len(strings.Split(c.Main, "\n")) - 1
	k := r.rangeInt(3, 8)
	for i := 0; i < k; i++ {
		t := pick(r, c16Typing)
		c.Main += t + "\n"
		w := utf16Len(t)
		chars := []int{w, w, w}
		if w > 0 {
			chars = append(chars, r.intn(w+1), w+2)
		}
		rq := c16Req{Line: uint32(base + i), Char: uint32(pick(r, chars))}
		if strings.HasSuffix(t, ":") && r.chance(50) {
			rq.Trigger = ":"
		} else if strings.HasSuffix(t, "@ ") && r.chance(50) {
			rq.Trigger = "@"
		}
		c.Reqs = append(c.Reqs, rq)
		st.count("typed:" + map[bool]string{true: "posting", false: "other"}[strings.HasPrefix(t, "    ") || strings.HasPrefix(t, "\t")])
	}
	// a position on an existing line too
	lines := strings.Split(c.Main, "\n")
	for i := 0; i < 2; i++ {
		li := r.intn(len(lines))
		c.Reqs = append(c.Reqs, c16Req{Line: uint32(li), Char: uint32(r.intn(utf16Len(lines[li]) + 1))})
	}
	if c.Fuzzy {
		st.count("fuzzy:on")
	} else {
		st.count("fuzzy:off")
	}
	return c
}

func c16Run(c c16Case) (string, error) {
	files := map[string]string{"main.journal": c.Main}
	if c.Sub != "" {
		files["sub.journal"] = c.Sub
	}
	dir, err := tempWorkspace(files)
	if err != nil {
		return "", err
	}
	defer os.RemoveAll(dir)
	root := ""
	if c.HasRoot {
		root = dir
	}
	mk := func(max int) (func(c16Req) (*protocol.CompletionList, error), func(), *analyzer.AnalysisResult, error) {
		opts := map[string]interface{}{"completion": map[string]interface{}{"maxResults": max, "fuzzyMatching": c.Fuzzy, "showCounts": c.Counts}}
		srv, _, base := newServerAt(root, opts)
		ctx := context.Background()
		u := fileURI(filepath.Join(dir, "main.journal"))
		_ = srv.DidOpen(ctx, &protocol.DidOpenTextDocumentParams{TextDocument: protocol.TextDocumentItem{URI: u, Text: c.Main}})
		if !quiesce(base) {
			return nil, nil, nil, fmt.Errorf("analysis did not finish")
		}
		var res *analyzer.AnalysisResult
		an := analyzer.New()
		if ws := srv.Workspace(); ws != nil && ws.GetResolved() != nil {
			res = an.AnalyzeResolved(ws.GetResolved())
		} else if rj := srv.GetResolved(u); rj != nil {
			res = an.AnalyzeResolved(rj)
		} else {
			j, _ := parser.Parse(c.Main)
			res = an.Analyze(j)
		}
		ask := func(rq c16Req) (*protocol.CompletionList, error) {
			p := &protocol.CompletionParams{TextDocumentPositionParams: protocol.TextDocumentPositionParams{TextDocument: protocol.TextDocumentIdentifier{URI: u}, Position: protocol.Position{Line: rq.Line, Character: rq.Char}}}
			if rq.Trigger != "" {
				p.Context = &protocol.CompletionContext{TriggerKind: protocol.CompletionTriggerKindTriggerCharacter, TriggerCharacter: rq.Trigger}
			}
			return srv.Completion(ctx, p)
		}
		closeFn := func() {
			_ = srv.DidClose(ctx, &protocol.DidCloseTextDocumentParams{TextDocument: protocol.TextDocumentIdentifier{URI: u}})
		}
		return ask, closeFn, res, nil
	}
	ask1, close1, res, err := mk(c.Max)
	if err != nil {
		return "", err
	}
	defer close1()
	ask2, close2, _, err := mk(c.Max2)
	if err != nil {
		return "", err
	}
	defer close2()
	var reqs []string
	for _, rq := range c.Reqs {
		l1, err := ask1(rq)
		if err != nil || l1 == nil {
			return "", fmt.Errorf("completion failed: %v", err)
		}
		l2, err := ask2(rq)
		if err != nil || l2 == nil {
			return "", fmt.Errorf("completion failed: %v", err)
		}
		labels := func(l *protocol.CompletionList) []string {
			var out []string
			for _, it := range l.Items {
				if it.Kind != protocol.CompletionItemKindConstant {
					out = append(out, it.Label)
				}
			}
			return out
		}
		kind, edit := 0, "None"
		for _, it := range l1.Items {
			if it.Kind == protocol.CompletionItemKindConstant {
				continue
			}
			kind = int(it.Kind)
			if it.TextEdit != nil {
				if it.TextEdit.Range.End.Line != rq.Line || it.TextEdit.Range.End.Character != rq.Char || it.TextEdit.Range.Start.Line != rq.Line {
					edit = "(Some (-1)%Z)" // the edit does not end at the cursor
				} else {
					edit = fmt.Sprintf("(Some %s)", gZ(int64(it.TextEdit.Range.Start.Character)))
				}
			}
			break
		}
		trig := 0
		if rq.Trigger != "" {
			trig = int(rq.Trigger[0])
		}
		reqs = append(reqs, fmt.Sprintf("(mkReq %d %d %d %s %s %s %s %s %d %s)", rq.Line, rq.Char, trig, gBool(c.Fuzzy), gZ(int64(c.Max)), gZ(int64(c.Max2)),
			gStrList(labels(l1)), gStrList(labels(l2)), kind, edit))
	}
	texts := []string{c.Main}
	if c.Sub != "" {
		texts = append(texts, c.Sub)
	}
	ta, tp := trueCounts(texts)
	return fmt.Sprintf("(mkCase %s %s %s %s %s)", gAnalysis(res), gCounts(ta), gCounts(tp), gBytes(c.Main), gList(reqs)), nil
}

func runC16(o opts) error {
	st := newStats("C16", o.seed, "case = a journal (optionally including a second file, with or without workspace root) with 2..7 transactions over 14 account names (multi-segment, with blanks, mixed case, Cyrillic, CJK), payees, commodities and tags, followed by 3..8 lines being typed (account / payee / commodity / tag name / tag value / directive contexts, fragments of any length and case); completion requested at the end of, inside and past each typed line and on existing lines, on two servers that differ only in maxResults (1..200), fuzzy on/off, counts on/off; non-trivial = at least one non-date answer with items; distinct by hash")
	return runGeneric(o, st, "case", func(raw json.RawMessage) (string, bool, string, error) {
		var c c16Case
		if err := json.Unmarshal(raw, &c); err != nil {
			return "", false, "", err
		}
		t, err := c16Run(c)
		return t, true, string(raw), err
	}, func(r *rng, i int) (interface{}, string, bool, error) {
		c := c16Gen(r, st)
		st.count("source:generated")
		t, err := c16Run(c)
		return c, t, strings.Contains(t, "(mkReq") && strings.Contains(t, "(hx \""), err
	})
}
