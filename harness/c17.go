package main

import (
	"context"
	"encoding/json"
	"fmt"
	"strconv"
	"strings"

	"go.lsp.dev/protocol"
)

func init() { runners["C17"] = runC17 }

type c17Req struct {
	Op   string `json:"op"` // open | edit | close | full | delta | range
	URI  int    `json:"uri"`
	C    int    `json:"c,omitempty"`    // content index
	Prev string `json:"prev,omitempty"` // delta: cur | stale | foreign | unknown
	SL   uint32 `json:"sl,omitempty"`
	EL   uint32 `json:"el,omitempty"`
}
type c17Case struct {
	Contents []string `json:"contents"`
	Reqs     []c17Req `json:"reqs"`
}

var c17Fixed = []string{
	"",
	"2024-01-15 * (A12) grocery store | weekly  ; trip:jan, who:me\n    expenses:food  $10.00 @ 0.9 EUR = $100\n    assets:cash\n",
	"account assets:bank\n    ; type:A\ncommodity 1,000.00 USD\ninclude other.journal\nP 2024-01-01 EUR 1.1 USD\n",
	"2024-02-01 ! payee\n    (virtual:acct)  10 \"A B\"\n    [balanced:acct]  -10 \"A B\"  ; note: x\n",
	"; comment line with tag:value, other:thing\n# another\n2024/3/4 x\n  a:b  1\n  c:d\n",
	"garbage @@ == ) ( | text 12 34\n\t\tweird\n",
	// pairs whose token arrays differ in one field only (modifier / type / length)
	"account assets:bank\n2024-01-01 x\n    a:b  1\n",
	"capture assets:bank\n2024-01-01 x\n    a:b  1\n",
	"comment\nassets:bank\n",
	"account\nassets:bank\n",
	"2024-01-01 x\n    a:b  1 USD\n",
	"2024-01-01 x\n    a:b  2 USD\n",
	"2024-01-01 x\n    a:c  1 USD\n",
	// tag names and values outside ASCII (two-byte, three-byte and non-BMP runes): a tag token is
	// measured in UTF-16 units like every other token
	"2024-01-01 x  ; тег:значение, b:c\n    a:b  1 USD ; ключ: знач\n",
	"; 标签:值, 𝒳y:𝒵 z\n2024-01-01 y\n    a:b  1  ; é:è, ß_1:ü-2\n",
}

func c17Contents(r *rng, st *stats) []string {
	n := r.rangeInt(3, 5)
	out := []string{""}
	for i := 0; i < n; i++ {
		switch {
		case len(out) > 1 && r.chance(40):
			// a small edit of an earlier content (what typing produces): old and new token arrays
			// share a long prefix and suffix, and repeated blocks make the relative encoding repeat
			out = append(out, c17Variant(r, out[1+r.intn(len(out)-1)]))
			st.count("content:variant")
		case r.chance(45):
			out = append(out, pick(r, c17Fixed))
			st.count("content:fixed")
		default:
			out = append(out, c01Doc(r, st))
			st.count("content:generated")
		}
	}
	return out
}

// c17Variant duplicates, removes or moves a block of 1..4 lines of a text.
func c17Variant(r *rng, base string) string {
	lines := strings.Split(base, "\n")
	if len(lines) < 2 {
		return base + "\n2024-01-01 x\n    a:b  1 USD\n    c:d\n"
	}
	i := r.intn(len(lines))
	k := r.rangeInt(1, 4)
	if i+k > len(lines) {
		k = len(lines) - i
	}
	block := append([]string(nil), lines[i:i+k]...)
	kind := r.intn(4)
	if kind == 3 {
		// swap a directive keyword for another one of the same length: every token keeps its place,
		// length and type, only the declaration modifier of the argument changes
		for li, ln := range lines {
			for _, pair := range [][2]string{{"account ", "capture "}, {"capture ", "account "}, {"comment ", "account "}} {
				if strings.HasPrefix(ln, pair[0]) {
					lines[li] = pair[1] + ln[len(pair[0]):]
					return strings.Join(lines, "\n")
				}
			}
		}
		kind = 0
	}
	switch kind {
	case 0: // duplicate the block right behind itself
		rest := append([]string(nil), lines[i+k:]...)
		lines = append(append(lines[:i+k], block...), rest...)
	case 1: // remove it
		lines = append(lines[:i], lines[i+k:]...)
	default: // duplicate it at the end
		lines = append(lines, block...)
	}
	return strings.Join(lines, "\n")
}

func u16LineLens(s string) []string {
	var out []string
	for _, ln := range strings.Split(s, "\n") {
		out = append(out, fmt.Sprint(utf16Len(ln)))
	}
	return out
}

// c17Covers lists, for every token of a full answer, its type, the bytes of the line it covers and the
// bytes of the line behind it (UTF-16 slicing done here; the lexeme rules are judged in Coq).
func c17Covers(text string, data []uint32) string {
	lines := strings.Split(text, "\n")
	var out []string
	line, col := uint32(0), uint32(0)
	for i := 0; i+4 < len(data); i += 5 {
		if data[i] != 0 {
			line += data[i]
			col = data[i+1]
		} else {
			col += data[i+1]
		}
		cover, after := "", ""
		if int(line) < len(lines) {
			ln := lines[line]
			b0 := utf16ToByte(ln, int(col))
			b1 := utf16ToByte(ln, int(col+data[i+2]))
			cover, after = ln[b0:b1], ln[b1:]
		}
		out = append(out, fmt.Sprintf("(%d, %s, %s)", data[i+3], gBytes(cover), gBytes(after)))
	}
	return gList(out)
}

// utf16ToByte converts a UTF-16 offset inside a line to a byte offset (clamped to the line).
func utf16ToByte(s string, u int) int {
	n := 0
	for i, r := range s {
		if n >= u {
			return i
		}
		if r >= 0x10000 {
			n += 2
		} else {
			n++
		}
	}
	return len(s)
}

func gData(d []uint32) string {
	items := make([]string, len(d))
	for i, v := range d {
		items[i] = strconv.FormatUint(uint64(v), 10)
	}
	return gList(items)
}

func c17Run(c c17Case) (string, error) {
	srv, _, base := newTestServer()
	ctx := context.Background()
	// table: full data of every content on a scratch uri
	scratch := protocol.DocumentURI("file:///verif/scratch.journal")
	var table []string
	for _, text := range c.Contents {
		_ = srv.DidOpen(ctx, &protocol.DidOpenTextDocumentParams{TextDocument: protocol.TextDocumentItem{URI: scratch, Text: text}})
		res, err := srv.SemanticTokensFull(ctx, &protocol.SemanticTokensParams{TextDocument: protocol.TextDocumentIdentifier{URI: scratch}})
		if err != nil || res == nil {
			return "", fmt.Errorf("full on scratch failed: %v", err)
		}
		_ = srv.DidClose(ctx, &protocol.DidCloseTextDocumentParams{TextDocument: protocol.TextDocumentIdentifier{URI: scratch}})
		flags := 0
		for i := 0; i < len(text); i++ {
			if text[i] >= 0x80 {
				flags |= 1
			}
		}
		table = append(table, fmt.Sprintf("(mkInfo %s %s %s %d %s %s)", gData(res.Data), gList(u16LineLens(text)), gBool(text == ""), flags, c17Covers(text, res.Data), gBytes(text)))
	}
	// id base: one more full on the scratch uri with a non-empty text
	_ = srv.DidOpen(ctx, &protocol.DidOpenTextDocumentParams{TextDocument: protocol.TextDocumentItem{URI: scratch, Text: "x\n"}})
	probe, _ := srv.SemanticTokensFull(ctx, &protocol.SemanticTokensParams{TextDocument: protocol.TextDocumentIdentifier{URI: scratch}})
	_ = srv.DidClose(ctx, &protocol.DidCloseTextDocumentParams{TextDocument: protocol.TextDocumentIdentifier{URI: scratch}})
	idBase, err := strconv.ParseUint(probe.ResultID, 10, 64)
	if err != nil {
		return "", fmt.Errorf("result id %q is not numeric", probe.ResultID)
	}
	relID := func(s string) (string, error) {
		if s == "" {
			return "None", nil
		}
		v, err := strconv.ParseUint(s, 10, 64)
		if err != nil || v <= idBase {
			return "", fmt.Errorf("unexpected result id %q (base %d)", s, idBase)
		}
		return fmt.Sprintf("(Some %d)", v-idBase), nil
	}
	idsByURI := map[int][]uint64{}
	open := map[int]bool{}
	var hist []string
	for _, rq := range c.Reqs {
		u := c01URI(rq.URI)
		td := protocol.TextDocumentIdentifier{URI: u}
		switch rq.Op {
		case "open", "edit":
			text := c.Contents[rq.C]
			if !open[rq.URI] {
				_ = srv.DidOpen(ctx, &protocol.DidOpenTextDocumentParams{TextDocument: protocol.TextDocumentItem{URI: u, Text: text}})
				hist = append(hist, fmt.Sprintf("(SOpen %d %d, RNone)", rq.URI, rq.C))
			} else {
				_ = srv.DidChange(ctx, &protocol.DidChangeTextDocumentParams{
					TextDocument:   protocol.VersionedTextDocumentIdentifier{TextDocumentIdentifier: td, Version: 2},
					ContentChanges: []protocol.TextDocumentContentChangeEvent{{Text: text}},
				})
				hist = append(hist, fmt.Sprintf("(SEdit %d %d, RNone)", rq.URI, rq.C))
			}
			open[rq.URI] = true
		case "close":
			_ = srv.DidClose(ctx, &protocol.DidCloseTextDocumentParams{TextDocument: td})
			open[rq.URI] = false
			hist = append(hist, fmt.Sprintf("(SClose %d, RNone)", rq.URI))
		case "full":
			res, err := srv.SemanticTokensFull(ctx, &protocol.SemanticTokensParams{TextDocument: td})
			if err != nil || res == nil {
				return "", fmt.Errorf("full failed: %v", err)
			}
			id, err := relID(res.ResultID)
			if err != nil {
				return "", err
			}
			if res.ResultID != "" {
				v, _ := strconv.ParseUint(res.ResultID, 10, 64)
				idsByURI[rq.URI] = append(idsByURI[rq.URI], v-idBase)
			}
			hist = append(hist, fmt.Sprintf("(SFull %d, RData %s %s)", rq.URI, id, gData(res.Data)))
		case "range":
			res, err := srv.SemanticTokensRange(ctx, &protocol.SemanticTokensRangeParams{TextDocument: td,
				Range: protocol.Range{Start: protocol.Position{Line: rq.SL}, End: protocol.Position{Line: rq.EL, Character: 5}}})
			if err != nil || res == nil {
				return "", fmt.Errorf("range failed: %v", err)
			}
			id, err := relID(res.ResultID)
			if err != nil {
				return "", err
			}
			hist = append(hist, fmt.Sprintf("(SRange %d %d %d, RData %s %s)", rq.URI, rq.SL, rq.EL, id, gData(res.Data)))
		case "delta":
			var prev uint64
			ids := idsByURI[rq.URI]
			switch rq.Prev {
			case "cur":
				if len(ids) > 0 {
					prev = ids[len(ids)-1]
				} else {
					prev = 424242
				}
			case "stale":
				if len(ids) > 1 {
					prev = ids[0]
				} else {
					prev = 424243
				}
			case "foreign":
				prev = 424244
				for ou, oids := range idsByURI {
					if ou != rq.URI && len(oids) > 0 {
						prev = oids[len(oids)-1]
					}
				}
			default:
				prev = 424245
			}
			res, err := srv.SemanticTokensFullDelta(ctx, &protocol.SemanticTokensDeltaParams{TextDocument: td, PreviousResultID: strconv.FormatUint(prev+idBase, 10)})
			if err != nil {
				return "", fmt.Errorf("delta failed: %v", err)
			}
			switch v := res.(type) {
			case *protocol.SemanticTokens:
				id, err := relID(v.ResultID)
				if err != nil {
					return "", err
				}
				if v.ResultID != "" {
					n, _ := strconv.ParseUint(v.ResultID, 10, 64)
					idsByURI[rq.URI] = append(idsByURI[rq.URI], n-idBase)
				}
				hist = append(hist, fmt.Sprintf("(SDelta %d %d, RData %s %s)", rq.URI, prev, id, gData(v.Data)))
			case *protocol.SemanticTokensDelta:
				n, err := strconv.ParseUint(v.ResultID, 10, 64)
				if err != nil {
					return "", err
				}
				idsByURI[rq.URI] = append(idsByURI[rq.URI], n-idBase)
				var es []string
				for _, e := range v.Edits {
					es = append(es, fmt.Sprintf("(mkEdit %d %d %s)", e.Start, e.DeleteCount, gData(e.Data)))
				}
				hist = append(hist, fmt.Sprintf("(SDelta %d %d, RDelta %d %s)", rq.URI, prev, n-idBase, gList(es)))
			default:
				return "", fmt.Errorf("unexpected delta answer %T", res)
			}
		}
	}
	for u := 0; u < 3; u++ {
		_ = srv.DidClose(ctx, &protocol.DidCloseTextDocumentParams{TextDocument: protocol.TextDocumentIdentifier{URI: c01URI(u)}})
	}
	quiesce(base)
	return fmt.Sprintf("(mkCase %s %s)", gList(table), gList(hist)), nil
}

// c17Twins are pairs of texts whose token arrays differ in one field of one token only (modifier, type or
// length): typing that turns one into the other between a full answer and a delta quoting it.
var c17Twins = [][2]string{
	{"account assets:bank\n2024-01-01 x\n    a:b  1\n", "capture assets:bank\n2024-01-01 x\n    a:b  1\n"},
	{"comment\nassets:bank\n", "account\nassets:bank\n"},
	{"account assets:bank\n    ; type:A\n", "comment assets:bank\n    ; type:A\n"},
	{"2024-01-01 x\n    a:b  1 USD\n", "2024-01-01 x\n    a:b  2 USD\n"},
	{"2024-01-01 x\n    a:b  1 USD\n", "2024-01-01 x\n    a:c  1 USD\n"},
	{"2024-01-01 x  ; t:v\n", "2024-01-01 x  ; t v\n"},
}

func c17Gen(r *rng, st *stats) (c17Case, bool) {
	if r.chance(6) {
		// full -> one-field edit -> delta quoting the current id (then a full answer to compare with)
		tw := pick(r, c17Twins)
		a, b := tw[0], tw[1]
		if r.chance(50) {
			a, b = b, a
		}
		st.count("history:one-field-edit")
		return c17Case{Contents: []string{"", a, b}, Reqs: []c17Req{{Op: "open", URI: 0, C: 1}, {Op: "full", URI: 0},
			{Op: "edit", URI: 0, C: 2}, {Op: "delta", URI: 0, Prev: "cur"}, {Op: "full", URI: 0}}}, true
	}
	c := c17Case{Contents: c17Contents(r, st)}
	n := r.rangeInt(3, 12)
	open := map[int]bool{}
	deltas := 0
	for i := 0; i < n; i++ {
		u := r.intn(3)
		if r.chance(55) {
			u = 0
		}
		k := r.intn(100)
		switch {
		case !open[u] && k < 80:
			c.Reqs = append(c.Reqs, c17Req{Op: "open", URI: u, C: r.intn(len(c.Contents))})
			open[u] = true
			st.count("op:open")
		case k < 22:
			c.Reqs = append(c.Reqs, c17Req{Op: "edit", URI: u, C: r.intn(len(c.Contents))})
			open[u] = true
			st.count("op:edit")
		case k < 27:
			c.Reqs = append(c.Reqs, c17Req{Op: "close", URI: u})
			open[u] = false
			st.count("op:close")
		case k < 45:
			c.Reqs = append(c.Reqs, c17Req{Op: "full", URI: u})
			st.count("op:full")
		case k < 60:
			sl := uint32(r.intn(6))
			c.Reqs = append(c.Reqs, c17Req{Op: "range", URI: u, SL: sl, EL: sl + uint32(r.intn(4))})
			st.count("op:range")
		default:
			p := pickW(r, []string{"cur", "stale", "foreign", "unknown"}, []int{55, 20, 15, 10})
			c.Reqs = append(c.Reqs, c17Req{Op: "delta", URI: u, Prev: p})
			st.count("op:delta-" + p)
			deltas++
		}
	}
	return c, deltas >= 1
}

func runC17(o opts) error {
	st := newStats("C17", o.seed, "case = 3..12 requests (open/edit with one of 4..6 contents incl. the empty text, close, full, range, delta quoting the current / a stale / another document's / an unknown result id) on up to 3 documents sharing the process-global cache; non-trivial = contains a delta request; distinct by hash")
	return runGeneric(o, st, "case", func(raw json.RawMessage) (string, bool, string, error) {
		var c c17Case
		if err := json.Unmarshal(raw, &c); err != nil {
			return "", false, "", err
		}
		t, err := c17Run(c)
		return t, true, string(raw), err
	}, func(r *rng, i int) (interface{}, string, bool, error) {
		c, nt := c17Gen(r, st)
		st.count("source:generated")
		t, err := c17Run(c)
		return c, t, nt, err
	})
}
