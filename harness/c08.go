package main

import (
	"context"
	"encoding/json"
	"fmt"
	"strings"

	"go.lsp.dev/protocol"

	"github.com/juev/hledger-lsp/internal/ast"
	"github.com/juev/hledger-lsp/internal/parser"
)

func init() { runners["C08"] = runC08 }

type c08Case struct {
	Journal GJournal `json:"journal"`
}

func gPR(r protocol.Range) string {
	return fmt.Sprintf("(mkPR %s %s %s %s)", gZ(int64(r.Start.Line)), gZ(int64(r.Start.Character)), gZ(int64(r.End.Line)), gZ(int64(r.End.Character)))
}

func c08Gen(r *rng, st *stats) c08Case {
	o := genOpts{NonASCII: r.chance(50), NonBMP: r.chance(25), Tags: true, Directives: true, Quoted: r.chance(20)}
	j := GJournal{EOL: "\n"}
	n := r.rangeInt(2, 6)
	for i := 0; i < n; i++ {
		k := r.intn(100)
		switch {
		case k < 65:
			t := c03GenTx(r, st, o, "")
			j.Items = append(j.Items, GItem{Tx: &t, Blank: pickW(r, []int{0, 1, 2}, []int{25, 55, 20})})
		case k < 75:
			j.Items = append(j.Items, GItem{Dir: &GDirective{Kind: "account", Arg: genAccount(r, o), Sub: pickW(r, [][]string{nil, {"; type:A"}, {"note x"}}, []int{60, 20, 20})}, Blank: r.intn(2)})
		case k < 83:
			j.Items = append(j.Items, GItem{Dir: &GDirective{Kind: "commodity", Arg: pick(r, []string{"USD", "EUR", "$"}), Sub: pickW(r, [][]string{nil, {"format 1,000.00 USD"}}, []int{70, 30})}, Blank: r.intn(2)})
		case k < 90:
			j.Items = append(j.Items, GItem{Dir: &GDirective{Kind: "include", Arg: pick(r, []string{"other.journal", "sub/2024.journal", "файл.journal"})}, Blank: r.intn(2)})
		default:
			j.Items = append(j.Items, GItem{Comment: pick(r, []string{"a comment", "tag:value", "ünï 😀"}), Blank: r.intn(2)})
			if r.chance(50) {
				j.Items = append(j.Items, GItem{Comment: "second comment line", Blank: r.intn(2)})
			}
		}
	}
	if o.NonBMP {
		st.count("text:non-bmp")
	} else if o.NonASCII {
		st.count("text:non-ascii")
	} else {
		st.count("text:ascii")
	}
	return c08Case{Journal: j}
}

func c08Run(c c08Case) (string, error) {
	text := c.Journal.text()
	srv, stub, base := newTestServer()
	ctx := context.Background()
	u := c01URI(0)
	td := protocol.TextDocumentIdentifier{URI: u}
	_ = srv.DidOpen(ctx, &protocol.DidOpenTextDocumentParams{TextDocument: protocol.TextDocumentItem{URI: u, Text: text}})
	if !quiesce(base) {
		return "", fmt.Errorf("analysis did not finish")
	}
	var obs []string
	add := func(feat int, pl, pc int64, r protocol.Range, want *string, code int) {
		t := "None"
		if want != nil {
			t = "(Some " + gBytes(*want) + ")"
		}
		obs = append(obs, fmt.Sprintf("(mkObs %d %s %s %s %s %d)", feat, gZ(pl), gZ(pc), gPR(r), t, code))
	}
	// diagnostics
	if pub, ok := stub.lastPublished(u); ok {
		for _, d := range pub.Diagnostics {
			code, _ := d.Code.(string)
			k := -1
			switch code {
			case "":
				k = 0
				for _, pre := range []string{"cannot read included file", "cycle detected", "included file too large", "include depth limit", "path traversal", "no files match", "invalid glob", "cannot read file", "file too large"} {
					if strings.HasPrefix(d.Message, pre) {
						k = -1 // a load error (include directive range): validated, not part of the tie
					}
				}
			case "UNBALANCED":
				k = 1
			case "MULTIPLE_INFERRED":
				k = 2
			case "UNDECLARED_ACCOUNT":
				k = 3
			case "UNDECLARED_COMMODITY":
				k = 4
			}
			if k >= 0 {
				add(1, -1, -1, d.Range, nil, k)
			} else {
				add(12, -1, -1, d.Range, nil, 0) // other diagnostics (date tags): validated, not part of the tie
			}
		}
	}
	// symbols, links, folds
	syms, _ := srv.DocumentSymbol(ctx, &protocol.DocumentSymbolParams{TextDocument: td})
	for _, s := range syms {
		if ds, ok := s.(protocol.DocumentSymbol); ok {
			add(4, -1, -1, ds.Range, nil, 0)
			add(13, -1, -1, ds.SelectionRange, nil, 0) // the symbol's selection range (tie: equals its range; oracle: well-formed)
		}
	}
	links, _ := srv.DocumentLink(ctx, &protocol.DocumentLinkParams{TextDocument: td})
	j, _ := parser.Parse(text)
	for i, l := range links {
		var want *string
		if i < len(j.Includes) {
			p := j.Includes[i].Path
			want = &p
		}
		add(6, -1, -1, l.Range, want, 0)
	}
	folds, _ := srv.FoldingRanges(ctx, &protocol.FoldingRangeParams{TextDocumentPositionParams: protocol.TextDocumentPositionParams{TextDocument: td}})
	var fl []string
	for _, f := range folds {
		fl = append(fl, fmt.Sprintf("(%s, %s)", gZ(int64(f.StartLine)), gZ(int64(f.EndLine))))
	}
	wsyms, _ := srv.WorkspaceSymbol(ctx, &protocol.WorkspaceSymbolParams{Query: ""})
	for _, s := range wsyms {
		add(9, -1, -1, s.Location.Range, nil, 0)
	}
	// position features at the elements of the document (UTF-16 column of the element's first character + 1)
	lines := strings.Split(text, "\n")
	// byte offset inside the line (taken from the AST's byte offsets, which do not depend on the unit
	// columns are counted in) -> UTF-16 character (0-based)
	u16col := func(line, byteCol int) int {
		if line-1 >= len(lines) || byteCol < 0 {
			return 0
		}
		ln := lines[line-1]
		if byteCol > len(ln) {
			byteCol = len(ln)
		}
		return utf16Len(ln[:byteCol])
	}
	inLine := func(line, offset int) int { return offset - lineStartOffset(text, line) }
	type el struct {
		line, col int // 1-based line, byte offset of the element start inside its line
		text      string
		kind      string
	}
	var els []el
	for _, t := range j.Transactions {
		els = append(els, el{t.Date.Range.Start.Line, inLine(t.Date.Range.Start.Line, t.Date.Range.Start.Offset), lines[t.Date.Range.Start.Line-1][t.Date.Range.Start.Offset-lineStartOffset(text, t.Date.Range.Start.Line) : t.Date.Range.End.Offset-lineStartOffset(text, t.Date.Range.Start.Line)], "date"})
		pd := t.Payee
		if pd == "" {
			pd = t.Description
		}
		if pd != "" {
			ln := lines[t.Range.Start.Line-1]
			if i := strings.Index(ln, pd); i >= 0 {
				els = append(els, el{t.Range.Start.Line, i, pd, "payee"})
			}
		}
		for _, p := range t.Postings {
			els = append(els, el{p.Account.Range.Start.Line, inLine(p.Account.Range.Start.Line, p.Account.Range.Start.Offset), p.Account.Name, "account"})
			if p.Amount != nil && p.Amount.Commodity.Symbol != "" {
				els = append(els, el{p.Amount.Commodity.Range.Start.Line, inLine(p.Amount.Commodity.Range.Start.Line, p.Amount.Commodity.Range.Start.Offset), p.Amount.Commodity.Symbol, "commodity"})
			}
			for _, g := range p.Tags {
				els = append(els, el{g.Range.Start.Line, inLine(g.Range.Start.Line, g.Range.Start.Offset), g.Name, "tag"})
			}
		}
	}
	kindCode := map[string]int{"date": 1, "payee": 2, "account": 3, "commodity": 4, "tag": 5}
	for _, e := range els {
		kc := kindCode[e.kind]
		ch := u16col(e.line, e.col) + 1
		if utf16Len(e.text) <= 1 {
			ch = u16col(e.line, e.col)
		}
		pos := protocol.TextDocumentPositionParams{TextDocument: td, Position: protocol.Position{Line: uint32(e.line - 1), Character: uint32(ch)}}
		want := e.text
		if hv, _ := srv.Hover(ctx, &protocol.HoverParams{TextDocumentPositionParams: pos}); hv != nil && hv.Range != nil {
			w := &want
			md := hv.Contents.Value
			// the hover may have resolved to another kind of element (amount, tag value): no covers claim then
			if (e.kind == "account" && !strings.HasPrefix(md, "**Account:**")) || (e.kind == "payee" && !strings.HasPrefix(md, "**Payee:**")) ||
				(e.kind == "date" && !strings.HasPrefix(md, "**Date:**")) || (e.kind == "tag" && !strings.HasPrefix(md, "**Tag:** `"+e.text+"`\n\n")) || e.kind == "commodity" {
				w = nil
			}
			add(2, int64(e.line-1), int64(ch), *hv.Range, w, kc)
		}
		if e.kind == "account" || e.kind == "commodity" || e.kind == "payee" {
			if pr, _ := srv.PrepareRename(ctx, &protocol.PrepareRenameParams{TextDocumentPositionParams: pos}); pr != nil {
				add(3, int64(e.line-1), int64(ch), *pr, &want, kc)
			}
			refs, _ := srv.References(ctx, &protocol.ReferenceParams{TextDocumentPositionParams: pos, Context: protocol.ReferenceContext{IncludeDeclaration: true}})
			for _, l := range refs {
				if l.URI == u {
					add(7, int64(e.line-1), int64(ch), l.Range, &want, kc)
				}
			}
			defs, _ := srv.Definition(ctx, &protocol.DefinitionParams{TextDocumentPositionParams: pos})
			for _, l := range defs {
				if l.URI == u {
					add(8, int64(e.line-1), int64(ch), l.Range, nil, kc)
				}
			}
		}
	}
	// completion edits at the end of every line
	for li, ln := range lines {
		if li > 12 {
			break
		}
		w := utf16Len(ln)
		// when the line ends with the commodity of a posting's amount, the edit must replace exactly
		// that fragment (the text typed so far in commodity context)
		var frag *string
		for _, t := range j.Transactions {
			for _, p := range t.Postings {
				if p.Amount != nil && p.Range.Start.Line == li+1 && p.Amount.Commodity.Position == ast.CommodityRight &&
					p.Amount.Commodity.Symbol != "" && strings.HasSuffix(ln, " "+p.Amount.Commodity.Symbol) && p.Cost == nil && p.BalanceAssertion == nil {
					sym := p.Amount.Commodity.Symbol
					frag = &sym
				}
			}
		}
		cp, _ := srv.Completion(ctx, &protocol.CompletionParams{TextDocumentPositionParams: protocol.TextDocumentPositionParams{TextDocument: td, Position: protocol.Position{Line: uint32(li), Character: uint32(w)}}})
		if cp != nil {
			for _, it := range cp.Items {
				if it.TextEdit != nil {
					add(10, int64(li), int64(w), it.TextEdit.Range, frag, 0)
					break
				}
			}
		}
	}
	_ = srv.DidClose(ctx, &protocol.DidCloseTextDocumentParams{TextDocument: td})
	_ = ast.Range{}
	return fmt.Sprintf("(mkCase %s %s %s %s)", gBytes(text), gJournal(j), gList(obs), gList(fl)), nil
}

func lineStartOffset(text string, line int) int {
	off := 0
	for i := 1; i < line; i++ {
		k := strings.IndexByte(text[off:], '\n')
		if k < 0 {
			return len(text)
		}
		off += k + 1
	}
	return off
}

func runC08(o opts) error {
	st := newStats("C08", o.seed, "case = a journal of 2..6 items from G (ASCII, non-ASCII or non-BMP text in descriptions, accounts, comments; directives with subdirective lines; comment blocks) opened on an in-process server; every range of diagnostics, document symbols, links, folding ranges, workspace symbols, and of hover / prepareRename / references / definition at every date, payee, account, commodity and tag of the document, and of the completion edit at every line end is collected; non-trivial = at least one position-carrying answer; distinct by hash")
	return runGeneric(o, st, "case", func(raw json.RawMessage) (string, bool, string, error) {
		var c c08Case
		if err := json.Unmarshal(raw, &c); err != nil {
			return "", false, "", err
		}
		t, err := c08Run(c)
		return t, true, string(raw), err
	}, func(r *rng, i int) (interface{}, string, bool, error) {
		c := c08Gen(r, st)
		st.count("source:generated")
		t, err := c08Run(c)
		return c, t, strings.Contains(t, "mkObs"), err
	})
}
