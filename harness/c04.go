package main

import (
	"context"
	"encoding/json"
	"fmt"
	"os"
	"regexp"
	"sort"
	"strings"
	"unicode/utf8"

	"go.lsp.dev/protocol"

	"github.com/juev/hledger-lsp/internal/parser"
)

// C04 and C05 share one harness: a formatting session against the real server
// (open, format, apply with a reference applier, re-open, format again, apply).

func init() { runners["C04"] = runFmt; runners["C05"] = runFmt }

type fmtCase struct {
	Hex       string `json:"hex"` // the document
	Workspace bool   `json:"workspace"`
	HasInc    bool   `json:"has_inc"`
	IncHex    string `json:"inc_hex,omitempty"`
	Indent    int    `json:"indent"`
	Align     bool   `json:"align"`
	MinCol    int    `json:"min_col"`
	Features  int    `json:"features"`
	PreHex    string `json:"pre_hex,omitempty"` // an earlier version of the document, opened and formatted first
}

// feature bits recorded by the generator (statistics and replay only; the classifiers in
// Tie/C04.v and Tie/C05.v recompute what they need from the text)
const (
	fQuoted = 1 << iota
	fFormats
	fInjected
	fOddComment
	fCRLF
	fArbitrary
	fTrailing
	fInclude
)

var hugeExp = regexp.MustCompile(`[eE][+-]?[0-9]{3,}`)

func fmtFormatLine(r *rng, used []string) string {
	dec := r.rangeInt(0, 8)
	mark, group := ".", pick(r, []string{",", " ", ""})
	if r.chance(35) {
		mark, group = ",", pick(r, []string{".", " ", ""})
	}
	num := "1" + group + "000"
	if dec > 0 {
		num += mark + strings.Repeat("0", dec)
	} else if r.chance(20) {
		num += mark
	}
	sym := pick(r, []string{"USD", "EUR", "$", "€", "RUB", "BTC", "AAPL"})
	if len(used) > 0 && r.chance(75) {
		sym = pick(r, used)
	}
	withSym := func() string {
		if isSigil(sym) {
			return sym + num
		}
		return num + " " + sym
	}
	switch r.intn(10) {
	case 0, 1, 2, 3:
		return "commodity " + sym + "\n    format " + withSym()
	case 4, 5, 6:
		return "commodity " + withSym()
	case 7:
		return "commodity " + sym + "  ; no format"
	default:
		return "D " + withSym()
	}
}

func fmtGen(r *rng, st *stats) fmtCase {
	c := fmtCase{Indent: r.rangeInt(1, 8), Align: r.chance(75)}
	if r.chance(40) {
		c.Indent = 4
	}
	if r.chance(50) {
		c.MinCol = r.rangeInt(1, 80)
	}
	switch k := r.intn(100); {
	case k < 35:
	case k < 75:
		c.Workspace = true
	default:
		c.Workspace, c.HasInc = true, true
		c.Features |= fInclude
	}
	if r.chance(5) {
		var cc c06Case
		for {
			cc = c06Gen(r.fork(), st)
			if !hugeExp.MatchString(unhex(cc.Hex)) {
				break
			}
		}
		c.Hex = cc.Hex
		c.Features |= fArbitrary
		c.HasInc = false
		st.count("doc:arbitrary-text")
		return c
	}
	o := genOpts{NonASCII: r.chance(60), NonBMP: r.chance(20), Tags: true, Quoted: r.chance(10), TxCommentLine: r.chance(15)}
	j := GJournal{EOL: "\n"}
	n := r.rangeInt(1, 5)
	for i := 0; i < n; i++ {
		k := r.intn(100)
		switch {
		case k < 80:
			t := c03GenTx(r, st, o, "")
			for pi := range t.Postings {
				p := &t.Postings[pi]
				if p.Amount != nil && p.Amount.Quoted {
					c.Features |= fQuoted
				}
				if p.Amount != nil && r.chance(20) { // more decimals than most formats show
					p.Amount.Dec = r.rangeInt(3, 8)
					if p.Amount.Dec == 3 {
						p.Amount.Dec = 4
					}
					p.Amount.Group = ""
				}
				if p.Comment != "" && r.chance(25) {
					p.Comment = pick(r, []string{" two blanks before", "trailing blank ", "a  b", ";double", " "})
					c.Features |= fOddComment
				}
			}
			j.Items = append(j.Items, GItem{Tx: &t, Blank: r.intn(3)})
		case k < 88:
			j.Items = append(j.Items, GItem{Dir: &GDirective{Kind: "account", Arg: genAccount(r, o)}, Blank: r.intn(2)})
		case k < 93:
			a := genAmount(r, genOpts{}, "USD", int64(r.rangeInt(1, 99999)), 2)
			a.Side, a.Glue, a.Plus = "R", false, false
			j.Items = append(j.Items, GItem{Dir: &GDirective{Kind: "P", Y: 2024, M: r.rangeInt(1, 12), D: r.rangeInt(1, 28), Arg: pick(r, []string{"EUR", "AAPL", "€"}), Amount: &a}, Blank: r.intn(2)})
		default:
			j.Items = append(j.Items, GItem{Comment: pick(r, []string{"a comment line", "tag:value", "ünï 😀 comment"}), Blank: r.intn(2)})
		}
	}
	var used []string
	for _, it := range j.Items {
		if it.Tx != nil {
			for _, p := range it.Tx.Postings {
				if p.Amount != nil && p.Amount.Sym != "" && !p.Amount.Quoted && !strings.ContainsAny(p.Amount.Sym, " 0123456789") {
					used = append(used, p.Amount.Sym)
				}
			}
		}
	}
	var head []string
	if c.HasInc {
		head = append(head, "include formats.journal")
		var inc []string
		for i, n := 0, r.rangeInt(1, 3); i < n; i++ {
			inc = append(inc, fmtFormatLine(r, used))
		}
		c.IncHex = hexOf(strings.Join(inc, "\n") + "\n")
	}
	if r.chance(55) {
		for i, n := 0, r.rangeInt(1, 3); i < n; i++ {
			head = append(head, fmtFormatLine(r, used))
		}
		c.Features |= fFormats
	}
	body := j.text()
	lines := strings.Split(strings.TrimSuffix(strings.Join(head, "\n")+"\n"+body, "\n"), "\n")
	if len(head) == 0 {
		lines = strings.Split(strings.TrimSuffix(body, "\n"), "\n")
	}
	// trailing blanks on some lines
	if r.chance(40) {
		for i := range lines {
			posting := strings.HasPrefix(lines[i], " ") || strings.HasPrefix(lines[i], "\t")
			if !posting && r.chance(25) {
				lines[i] += pick(r, []string{" ", "  ", "\t", " \t "})
				c.Features |= fTrailing
			} else if posting && r.chance(6) {
				lines[i] += pick(r, []string{" ", "  ", " \t "})
				c.Features |= fTrailing
			}
		}
	}
	// text the parser cannot read, on or after a posting line
	if r.chance(12) {
		var idx []int
		for i, l := range lines {
			if strings.HasPrefix(l, " ") && strings.TrimSpace(l) != "" && !strings.HasPrefix(strings.TrimSpace(l), ";") && !strings.HasPrefix(strings.TrimSpace(l), "format") {
				idx = append(idx, i)
			}
		}
		if len(idx) > 0 {
			i := idx[r.intn(len(idx))]
			lines[i] += pick(r, []string{" zzqx", " @", " = ", " 5 5", " @ zz", " ) x"})
			c.Features |= fInjected
		}
	}
	eol := "\n"
	if r.chance(6) {
		eol = "\r\n"
		c.Features |= fCRLF
	}
	text := strings.Join(lines, eol)
	if r.chance(85) {
		text += eol
	}
	c.Hex = hexOf(text)
	// an editing history: the same document with other display formats was open (and formatted) before
	if c.Workspace && len(head) > 0 && r.chance(40) {
		var pre []string
		for _, l := range strings.Split(text, eol) {
			if strings.HasPrefix(l, "commodity ") || strings.HasPrefix(l, "D ") || strings.HasPrefix(strings.TrimSpace(l), "format ") {
				if r.chance(70) {
					l = strings.NewReplacer("0000", "0", ".00", ".0000", ",00", ",0", "1,000", "1000", "1 000", "1.000").Replace(l)
				}
			}
			pre = append(pre, l)
		}
		c.PreHex = hexOf(strings.Join(pre, eol))
		st.count("history:earlier-version-formatted-first")
	}
	return c
}

type fmtRound struct {
	errs  []string
	edits []protocol.TextEdit
	after string
	diags []string
	dbg   []string
}

// refApply is the harness's reference applier: positions are (line, UTF-16 unit) with lines
// ended by LF; a CR before the LF belongs to the line ending; edits are applied from the last
// to the first by byte offset.
func refApply(text string, edits []protocol.TextEdit) string {
	lines := strings.Split(text, "\n")
	starts := make([]int, len(lines))
	off := 0
	for i, l := range lines {
		starts[i] = off
		off += len(l) + 1
	}
	toOff := func(p protocol.Position) int {
		if int(p.Line) >= len(lines) {
			return len(text)
		}
		l := strings.TrimSuffix(lines[p.Line], "\r")
		u, b := 0, 0
		for b < len(l) && u < int(p.Character) {
			rn, sz := utf8.DecodeRuneInString(l[b:])
			if rn >= 0x10000 {
				u += 2
			} else {
				u++
			}
			b += sz
		}
		return starts[p.Line] + b
	}
	type be struct {
		a, z int
		s    string
	}
	var bes []be
	for _, e := range edits {
		bes = append(bes, be{toOff(e.Range.Start), toOff(e.Range.End), e.NewText})
	}
	sort.SliceStable(bes, func(i, j int) bool { return bes[i].a > bes[j].a })
	for _, e := range bes {
		if e.a > e.z || e.z > len(text) {
			continue
		}
		text = text[:e.a] + e.s + text[e.z:]
	}
	return text
}

func fmtRun(c fmtCase) (string, error) {
	text := unhex(c.Hex)
	root := ""
	u := c01URI(0)
	if c.Workspace {
		files := map[string]string{"main.journal": text}
		if c.HasInc {
			files["formats.journal"] = unhex(c.IncHex)
		}
		dir, err := tempWorkspace(files)
		if err != nil {
			return "", err
		}
		defer os.RemoveAll(dir)
		root = dir
		u = fileURI(dir + "/main.journal")
	}
	initOpts := map[string]interface{}{"formatting": map[string]interface{}{"indentSize": c.Indent, "alignAmounts": c.Align, "minAlignmentColumn": c.MinCol}}
	srv, stub, base := newServerAt(root, initOpts)
	ctx := context.Background()
	td := protocol.TextDocumentIdentifier{URI: u}
	opened, version := false, int32(1)
	round := func(t string) (fmtRound, error) {
		var rd fmtRound
		// the document is opened once; every later version arrives as a full-text change
		// (Workspace.UpdateFile runs on change, not on open)
		if !opened {
			_ = srv.DidOpen(ctx, &protocol.DidOpenTextDocumentParams{TextDocument: protocol.TextDocumentItem{URI: u, Text: t}})
			opened = true
			quiesce(base)
		}
		version++
		_ = srv.DidChange(ctx, &protocol.DidChangeTextDocumentParams{
			TextDocument:   protocol.VersionedTextDocumentIdentifier{TextDocumentIdentifier: td, Version: version},
			ContentChanges: []protocol.TextDocumentContentChangeEvent{{Text: t}}})
		if !quiesce(base) {
			return rd, fmt.Errorf("analysis did not finish")
		}
		_, errs := parser.Parse(t)
		for _, e := range errs {
			rd.errs = append(rd.errs, fmt.Sprintf("(%d, %d)", e.Pos.Line, e.Pos.Column))
		}
		if pub, ok := stub.lastPublished(u); ok {
			type dd struct {
				line      int
				code, msg string
			}
			var ds []dd
			for _, d := range pub.Diagnostics {
				code, _ := d.Code.(string)
				ds = append(ds, dd{int(d.Range.Start.Line), code, d.Message})
			}
			sort.Slice(ds, func(i, j int) bool {
				if ds[i].line != ds[j].line {
					return ds[i].line < ds[j].line
				}
				if ds[i].code != ds[j].code {
					return ds[i].code < ds[j].code
				}
				return ds[i].msg < ds[j].msg
			})
			for _, d := range ds {
				rd.dbg = append(rd.dbg, fmt.Sprintf("%d/%s/%s", d.line, d.code, d.msg))
				rd.diags = append(rd.diags, fmt.Sprintf("(mkDiag %s %s %s)", gZ(int64(d.line)), gBytes(d.code), gBytes(d.msg)))
			}
		}
		es, err := srv.Format(ctx, &protocol.DocumentFormattingParams{TextDocument: td})
		if err != nil {
			return rd, err
		}
		rd.edits = es
		rd.after = refApply(t, es)
		return rd, nil
	}
	if c.PreHex != "" {
		if _, err := round(unhex(c.PreHex)); err != nil {
			return "", err
		}
	}
	r1, err := round(text)
	if err != nil {
		return "", err
	}
	r2, err := round(r1.after)
	if err != nil {
		return "", err
	}
	if fmtDebug {
		fmt.Printf("---- text\n%s\n---- after 1st (%d edits)\n%s\n---- after 2nd (%d edits)\n%s\n", text, len(r1.edits), r1.after, len(r2.edits), r2.after)
		fmt.Printf("errs0 %v\nerrs1 %v\ndiags0 %v\ndiags1 %v\n", r1.errs, r2.errs, r1.dbg, r2.dbg)
	}
	gEdits := func(es []protocol.TextEdit) string {
		var out []string
		for _, e := range es {
			out = append(out, fmt.Sprintf("(mkFE %s %s %s %s %s)", gZ(int64(e.Range.Start.Line)), gZ(int64(e.Range.Start.Character)), gZ(int64(e.Range.End.Line)), gZ(int64(e.Range.End.Character)), gBytes(e.NewText)))
		}
		return gList(out)
	}
	inc := "None"
	if c.HasInc {
		inc = "(Some " + gBytes(unhex(c.IncHex)) + ")"
	}
	return fmt.Sprintf("(mkCase %s %s %s (mkFO %s %s %s) %s %s %s %s %s %s %s %s %d)",
		gBytes(text), gBool(c.Workspace), inc, gZ(int64(c.Indent)), gBool(c.Align), gZ(int64(c.MinCol)),
		gList(r1.errs), gEdits(r1.edits), gBytes(r1.after), gList(r1.diags),
		gList(r2.errs), gEdits(r2.edits), gBytes(r2.after), gList(r2.diags), c.Features), nil
}

func runFmt(o opts) error {
	st := newStats(o.prop, o.seed, "case = a document (95%: 1..5 items from G: transactions with 0..4 postings incl. status marks, virtual kinds, non-ASCII / non-BMP accounts, amounts in every notation, costs, assertions, inline comments; account / P directives; comment lines; 55% with 1..3 commodity / D format directives (decimal point or comma, group mark comma / point / blank / none, 0..8 decimals); amounts with 3..8 decimals; trailing blanks on 20% of the lines of 40% of the documents; 12% with text the parser cannot read appended to a posting line; 6% CRLF; 10% quoted commodities; odd inline-comment spacing; 5%: arbitrary text from the C06 generator) x indent 1..8 x alignment on/off x minimum column 0..80 x (no workspace | workspace with this document as root | workspace whose root includes formats.journal); the real server formats it, the harness applies the edits, re-opens and formats again; non-trivial = the first formatting returned at least one edit; distinct by hash")
	return runGeneric(o, st, "fcase", func(raw json.RawMessage) (string, bool, string, error) {
		var c fmtCase
		if err := json.Unmarshal(raw, &c); err != nil {
			return "", false, "", err
		}
		t, err := fmtRun(c)
		return t, true, string(raw), err
	}, func(r *rng, i int) (interface{}, string, bool, error) {
		c := fmtGen(r, st)
		st.count("source:generated")
		st.count(fmt.Sprintf("indent:%d", c.Indent))
		st.count(fmt.Sprintf("align:%v", c.Align))
		switch {
		case c.MinCol == 0:
			st.count("mincol:0")
		case c.MinCol <= 40:
			st.count("mincol:1-40")
		default:
			st.count("mincol:41-80")
		}
		st.count(fmt.Sprintf("workspace:%v/include:%v", c.Workspace, c.HasInc))
		for b, name := range []string{"quoted", "formats", "injected-unparsable", "odd-comment", "crlf", "arbitrary", "trailing-blanks", "include"} {
			if c.Features&(1<<b) != 0 {
				st.count("feature:" + name)
			}
		}
		t, err := fmtRun(c)
		return c, t, strings.Contains(t, "mkFE"), err
	})
}

func init() { runners["dbgfmt"] = runDbgFmt }

// dbgfmt: prints the formatting session of every case in the replay file (debug aid)
func runDbgFmt(o opts) error {
	raws, err := loadCaseFiles([]string{o.replay})
	if err != nil {
		return err
	}
	for _, raw := range raws {
		var c fmtCase
		if err := json.Unmarshal(raw, &c); err != nil {
			return err
		}
		fmtDebug = true
		_, err := fmtRun(c)
		fmtDebug = false
		if err != nil {
			fmt.Println("ERR", err)
		}
	}
	return nil
}

var fmtDebug bool
