package main

import (
	"fmt"
	"math/big"
	"sort"
	"strings"

	"github.com/shopspring/decimal"

	"github.com/juev/hledger-lsp/internal/ast"
)

// Gallina printing of internal/ast values (type HL.Model.Ast).

func gBigZ(v *big.Int) string {
	if v.Sign() < 0 {
		return "(" + v.String() + ")%Z"
	}
	return v.String() + "%Z"
}
func gDec(d decimal.Decimal) string {
	return fmt.Sprintf("(mkDec %s %s)", gBigZ(d.Coefficient()), gZ(int64(d.Exponent())))
}
func gPos(p ast.Position) string {
	return fmt.Sprintf("(mkPos %s %s %s)", gZ(int64(p.Line)), gZ(int64(p.Column)), gZ(int64(p.Offset)))
}
func gRng(r ast.Range) string { return "(mkRng " + gPos(r.Start) + " " + gPos(r.End) + ")" }
func gCommodity(c ast.Commodity) string {
	return fmt.Sprintf("(mkCom %s %s %s)", gBytes(c.Symbol), gBool(c.Position == ast.CommodityLeft), gRng(c.Range))
}
func gAmount(a ast.Amount) string {
	return fmt.Sprintf("(mkAmt %s %s %s %s %s)", gDec(a.Quantity), gBytes(a.RawQuantity), gCommodity(a.Commodity), gBool(a.SignBeforeCommodity), gRng(a.Range))
}
func gTags(ts []ast.Tag) string {
	var items []string
	for _, t := range ts {
		items = append(items, fmt.Sprintf("(mkTag %s %s %s)", gBytes(t.Name), gBytes(t.Value), gRng(t.Range)))
	}
	return gList(items)
}
func gStatus(s ast.Status) string {
	switch s {
	case ast.StatusPending:
		return "StPending"
	case ast.StatusCleared:
		return "StCleared"
	}
	return "StNone"
}
func gVirtual(v ast.VirtualType) string {
	switch v {
	case ast.VirtualBalanced:
		return "VBalanced"
	case ast.VirtualUnbalanced:
		return "VUnbalanced"
	}
	return "VNone"
}
func gPosting(p ast.Posting) string {
	amt, as, co := "None", "None", "None"
	if p.Amount != nil {
		amt = "(Some " + gAmount(*p.Amount) + ")"
	}
	if p.BalanceAssertion != nil {
		b := p.BalanceAssertion
		as = fmt.Sprintf("(Some (mkAssert %s %s %s %s))", gAmount(b.Amount), gBool(b.IsStrict), gBool(b.IsInclusive), gRng(b.Range))
	}
	if p.Cost != nil {
		co = fmt.Sprintf("(Some (mkCost %s %s %s))", gAmount(p.Cost.Amount), gBool(p.Cost.IsTotal), gRng(p.Cost.Range))
	}
	return fmt.Sprintf("(mkPosting %s %s %s %s %s %s %s %s %s %s)", gStatus(p.Status), gBytes(p.Account.Name), gRng(p.Account.Range),
		amt, as, co, gBytes(p.Comment), gTags(p.Tags), gVirtual(p.Virtual), gRng(p.Range))
}
func gDate(d ast.Date) string {
	return fmt.Sprintf("(mkDate %s %s %s %s)", gZ(int64(d.Year)), gZ(int64(d.Month)), gZ(int64(d.Day)), gRng(d.Range))
}
func gComments(cs []ast.Comment) string {
	var items []string
	for _, c := range cs {
		items = append(items, fmt.Sprintf("(mkComment %s %s %s)", gBytes(c.Text), gTags(c.Tags), gRng(c.Range)))
	}
	return gList(items)
}
func gTx(t ast.Transaction) string {
	d2 := "None"
	if t.Date2 != nil {
		d2 = "(Some " + gDate(*t.Date2) + ")"
	}
	var ps []string
	for _, p := range t.Postings {
		ps = append(ps, gPosting(p))
	}
	return fmt.Sprintf("(mkTx %s %s %s %s %s %s %s %s %s %s %s %s)", gDate(t.Date), d2, gStatus(t.Status), gBytes(t.Code), gBytes(t.Description),
		gBytes(t.Payee), gBytes(t.Note), gRng(t.PayeeRange), gList(ps), gTags(t.Tags), gComments(t.Comments), gRng(t.Range))
}
func gSubdirs(m map[string]string) string {
	var keys []string
	for k := range m {
		keys = append(keys, k)
	}
	sort.Strings(keys)
	var items []string
	for _, k := range keys {
		items = append(items, "("+gBytes(k)+", "+gBytes(m[k])+")")
	}
	return gList(items)
}
func gDirective(d ast.Directive) string {
	switch v := d.(type) {
	case ast.AccountDirective:
		return fmt.Sprintf("(DAccount %s %s %s %s %s %s)", gBytes(v.Account.Name), gRng(v.Account.Range), gTags(v.Tags), gBytes(v.Comment), gSubdirs(v.Subdirs), gRng(v.Range))
	case ast.CommodityDirective:
		return fmt.Sprintf("(DCommodity %s %s %s %s %s)", gCommodity(v.Commodity), gBytes(v.Format), gBytes(v.Note), gSubdirs(v.Subdirs), gRng(v.Range))
	case ast.Include:
		return fmt.Sprintf("(DInclude %s %s)", gBytes(v.Path), gRng(v.Range))
	case ast.PriceDirective:
		return fmt.Sprintf("(DPrice %s %s %s %s)", gDate(v.Date), gCommodity(v.Commodity), gAmount(v.Price), gRng(v.Range))
	case ast.YearDirective:
		return fmt.Sprintf("(DYear %s %s)", gZ(int64(v.Year)), gRng(v.Range))
	case ast.DefaultCommodityDirective:
		return fmt.Sprintf("(DDefault %s %s %s)", gBytes(v.Symbol), gBytes(v.Format), gRng(v.Range))
	}
	return "(DYear 0%Z rng0)"
}
func gJournal(j *ast.Journal) string {
	var txs, dirs, incs []string
	for _, t := range j.Transactions {
		txs = append(txs, gTx(t))
	}
	for _, d := range j.Directives {
		dirs = append(dirs, gDirective(d))
	}
	for _, i := range j.Includes {
		incs = append(incs, fmt.Sprintf("(mkInc %s %s)", gBytes(i.Path), gRng(i.Range)))
	}
	return fmt.Sprintf("(mkJournal %s %s %s %s)", gList(txs), gList(dirs), gComments(j.Comments), gList(incs))
}

var _ = strings.Join
