package main

// Translator for C14: reads internal/server, internal/workspace and internal/include of /repo
// with go/parser + go/types and produces the table of shared-state accesses with the locks held
// at each of them, the blocking client requests with the locks held across them, and the lock
// nesting edges.  Syntactic and flow-insensitive where noted; see DESIGN.md (C14) for what it
// does not see (function values, interfaces, aliases stored in structs).
//
// Tracked structs: every struct of the three packages that has a sync.Mutex / sync.RWMutex field.
// Location: a field of a tracked struct (fields of sync / atomic types are skipped: they are
// synchronised internally).  "deep" = what the field points to (map contents, pointee fields).

import (
	"fmt"
	"go/ast"
	"go/importer"
	"go/parser"
	"go/token"
	"go/types"
	"os"
	"path/filepath"
	"sort"
	"strings"
)

const modPath = "github.com/juev/hledger-lsp"

type xLock struct {
	Name  string // Struct.field
	Write bool
}
type xAccess struct {
	Fn    string
	Loc   string
	Deep  bool
	Write bool
	Held  []xLock
	Pos   string
}
type xEdge struct {
	Caller, Callee string
	Held           []xLock
	Go             bool
}
type xBlock struct {
	Fn, Call string
	Held     []xLock
	Pos      string
}
type xLeak struct {
	Fn, Lock, Pos string
}
type xAcquire struct {
	Fn   string
	Lock xLock
	Held []xLock
}

type extractor struct {
	fset     *token.FileSet
	pkgs     map[string]*types.Package
	infos    map[string]*types.Info
	files    map[string][]*ast.File
	std      types.Importer
	tracked  map[*types.Named]bool
	mutexOf  map[string]bool // "Struct.field" that are mutexes
	accesses []xAccess
	edges    []xEdge
	blocks   []xBlock
	acquires []xAcquire
	leaks    []xLeak
	escapes  map[string]string // function full name -> location it hands out
	mutators map[string]bool   // methods (of non-tracked types) that modify their receiver
	funcs    int
}

func (x *extractor) Import(path string) (*types.Package, error) {
	if p, ok := x.pkgs[path]; ok {
		return p, nil
	}
	if strings.HasPrefix(path, modPath+"/") {
		return x.load(path)
	}
	p, err := x.std.Import(path)
	if err != nil || p == nil {
		p = types.NewPackage(path, filepath.Base(path)) // unknown dependency: an empty package
		p.MarkComplete()
	}
	x.pkgs[path] = p
	return p, nil
}

func (x *extractor) load(path string) (*types.Package, error) {
	dir := filepath.Join("/repo", strings.TrimPrefix(path, modPath+"/"))
	ents, err := os.ReadDir(dir)
	if err != nil {
		return nil, err
	}
	var files []*ast.File
	for _, e := range ents {
		n := e.Name()
		if !strings.HasSuffix(n, ".go") || strings.HasSuffix(n, "_test.go") || n == "verif_hooks.go" {
			continue
		}
		f, err := parser.ParseFile(x.fset, filepath.Join(dir, n), nil, parser.SkipObjectResolution)
		if err != nil {
			return nil, err
		}
		files = append(files, f)
	}
	info := &types.Info{Types: map[ast.Expr]types.TypeAndValue{}, Defs: map[*ast.Ident]types.Object{}, Uses: map[*ast.Ident]types.Object{}, Selections: map[*ast.SelectorExpr]*types.Selection{}}
	conf := types.Config{Importer: x, Error: func(error) {}}
	pkg, _ := conf.Check(path, x.fset, files, info)
	x.pkgs[path] = pkg
	x.infos[path] = info
	x.files[path] = files
	return pkg, nil
}

func isSyncType(t types.Type) bool {
	if p, ok := t.(*types.Pointer); ok {
		t = p.Elem()
	}
	if n, ok := t.(*types.Named); ok && n.Obj().Pkg() != nil {
		pp := n.Obj().Pkg().Path()
		return pp == "sync" || pp == "sync/atomic"
	}
	return false
}
func isMutex(t types.Type) bool {
	if n, ok := t.(*types.Named); ok && n.Obj().Pkg() != nil && n.Obj().Pkg().Path() == "sync" {
		return n.Obj().Name() == "Mutex" || n.Obj().Name() == "RWMutex"
	}
	return false
}
func namedOf(t types.Type) *types.Named {
	if t == nil {
		return nil
	}
	if p, ok := t.(*types.Pointer); ok {
		t = p.Elem()
	}
	n, _ := t.(*types.Named)
	return n
}
func refType(t types.Type) bool {
	if t == nil {
		return false
	}
	switch t.Underlying().(type) {
	case *types.Pointer, *types.Map, *types.Slice, *types.Interface:
		return true
	}
	return false
}

var ourPkgs = []string{modPath + "/internal/include", modPath + "/internal/workspace", modPath + "/internal/server"}

func isOur(p *types.Package) bool {
	if p == nil {
		return false
	}
	for _, q := range ourPkgs {
		if p.Path() == q {
			return true
		}
	}
	return false
}

// ---- per-function walk ----
type fnWalk struct {
	x     *extractor
	info  *types.Info
	fn    string
	held  []xLock
	alias map[types.Object]string
	final bool // record results (last pass)
	// locks whose release is deferred (they are let go when the function returns)
	deferred map[string]int
}

// leakCheck: at a return (or the end of the body) every lock still held must have a deferred release
func (w *fnWalk) leakCheck(n ast.Node) {
	if !w.final {
		return
	}
	for _, h := range w.held {
		if w.deferred[h.Name] == 0 {
			w.x.leaks = append(w.x.leaks, xLeak{Fn: w.fn, Lock: h.Name, Pos: w.pos(n)})
		}
	}
}

func copyHeld(h []xLock) []xLock { return append([]xLock(nil), h...) }

func (w *fnWalk) pos(n ast.Node) string {
	p := w.x.fset.Position(n.Pos())
	return fmt.Sprintf("%s:%d", strings.TrimPrefix(p.Filename, "/repo/"), p.Line)
}

// trackedField: e is X.f with X of a tracked struct type and f a field
func (w *fnWalk) trackedField(e *ast.SelectorExpr) (string, bool) {
	tv, ok := w.info.Types[e.X]
	if !ok {
		return "", false
	}
	n := namedOf(tv.Type)
	if n == nil || !w.x.tracked[n] {
		return "", false
	}
	sel := w.info.Selections[e]
	if sel == nil || sel.Kind() != types.FieldVal {
		return "", false
	}
	return n.Obj().Name() + "." + e.Sel.Name, true
}

// classify: the location an expression is rooted at; depth 0 = the field (or an alias of what it
// holds), >0 = inside what it points to; alias = rooted at a local copy / a handed-out pointer
func (w *fnWalk) classify(e ast.Expr) (loc string, depth int, alias bool, ok bool) {
	switch v := e.(type) {
	case *ast.ParenExpr:
		return w.classify(v.X)
	case *ast.StarExpr:
		l, d, a, ok := w.classify(v.X)
		return l, d + 1, a, ok
	case *ast.Ident:
		if obj := w.info.Uses[v]; obj != nil {
			if l, ok := w.alias[obj]; ok {
				return l, 0, true, true
			}
		}
	case *ast.SelectorExpr:
		if l, ok := w.trackedField(v); ok {
			return l, 0, false, true
		}
		if sel := w.info.Selections[v]; sel != nil && sel.Kind() != types.FieldVal {
			return "", 0, false, false // method value
		}
		if l, d, a, ok := w.classify(v.X); ok {
			return l, d + 1, a, true
		}
	case *ast.IndexExpr:
		if l, d, a, ok := w.classify(v.X); ok {
			return l, d + 1, a, true
		}
	case *ast.SliceExpr:
		if l, d, a, ok := w.classify(v.X); ok {
			return l, d + 1, a, true
		}
	case *ast.CallExpr:
		if f := w.callee(v); f != nil {
			if l, ok := w.x.escapes[f.FullName()]; ok {
				return l, 0, true, true
			}
		}
	}
	return "", 0, false, false
}

func (w *fnWalk) callee(c *ast.CallExpr) *types.Func {
	switch f := c.Fun.(type) {
	case *ast.Ident:
		if fn, ok := w.info.Uses[f].(*types.Func); ok {
			return fn
		}
	case *ast.SelectorExpr:
		if sel := w.info.Selections[f]; sel != nil {
			if fn, ok := sel.Obj().(*types.Func); ok {
				return fn
			}
		}
		if fn, ok := w.info.Uses[f.Sel].(*types.Func); ok {
			return fn
		}
	}
	return nil
}

func (w *fnWalk) record(loc string, deep, write bool, n ast.Node) {
	if w.x.mutexOf[loc] {
		return
	}
	if w.final {
		w.x.accesses = append(w.x.accesses, xAccess{Fn: w.fn, Loc: loc, Deep: deep, Write: write, Held: copyHeld(w.held), Pos: w.pos(n)})
	}
}

func (w *fnWalk) skipLoc(e ast.Expr) bool { // the field itself is of a sync / atomic type
	if tv, ok := w.info.Types[e]; ok && isSyncType(tv.Type) {
		return true
	}
	return false
}

// read of an expression (and of everything inside it)
func (w *fnWalk) read(e ast.Expr) {
	if e == nil {
		return
	}
	switch v := e.(type) {
	case *ast.CallExpr:
		w.call(v)
		return
	case *ast.FuncLit:
		w.block(v.Body)
		return
	case *ast.UnaryExpr:
		if v.Op == token.AND {
			if l, d, a, ok := w.classify(v.X); ok && !(a && d == 0) && !w.skipLoc(v.X) {
				w.record(l, d > 0, true, v) // address taken: may be written through
				return
			}
		}
		w.read(v.X)
		return
	case *ast.BinaryExpr:
		w.read(v.X)
		w.read(v.Y)
		return
	case *ast.KeyValueExpr:
		w.read(v.Value)
		return
	case *ast.CompositeLit:
		for _, el := range v.Elts {
			w.read(el)
		}
		return
	case *ast.TypeAssertExpr:
		w.read(v.X)
		return
	}
	if l, d, a, ok := w.classify(e); ok {
		if !(a && d == 0) && !w.chainSkips(e) {
			w.record(l, d > 0, false, e)
		}
		w.readIndexes(e)
		return
	}
	switch v := e.(type) {
	case *ast.ParenExpr:
		w.read(v.X)
	case *ast.StarExpr:
		w.read(v.X)
	case *ast.SelectorExpr:
		w.read(v.X)
	case *ast.IndexExpr:
		w.read(v.X)
		w.read(v.Index)
	case *ast.SliceExpr:
		w.read(v.X)
		w.read(v.Low)
		w.read(v.High)
		w.read(v.Max)
	}
}

// the chain is rooted at a field of a sync / atomic type (s.documents...): not a location
func (w *fnWalk) chainSkips(e ast.Expr) bool {
	for {
		switch v := e.(type) {
		case *ast.ParenExpr:
			e = v.X
		case *ast.StarExpr:
			e = v.X
		case *ast.IndexExpr:
			e = v.X
		case *ast.SliceExpr:
			e = v.X
		case *ast.SelectorExpr:
			if _, ok := w.trackedField(v); ok {
				return w.skipLoc(v)
			}
			e = v.X
		default:
			return false
		}
	}
}

func (w *fnWalk) readIndexes(e ast.Expr) {
	switch v := e.(type) {
	case *ast.ParenExpr:
		w.readIndexes(v.X)
	case *ast.StarExpr:
		w.readIndexes(v.X)
	case *ast.SelectorExpr:
		w.readIndexes(v.X)
	case *ast.IndexExpr:
		w.readIndexes(v.X)
		w.read(v.Index)
	case *ast.SliceExpr:
		w.readIndexes(v.X)
		w.read(v.Low)
		w.read(v.High)
	case *ast.CallExpr:
		w.call(v)
	}
}

func (w *fnWalk) write(e ast.Expr) {
	if id, ok := e.(*ast.Ident); ok && id.Name == "_" {
		return
	}
	if l, d, a, ok := w.classify(e); ok {
		if !(a && d == 0) && !w.chainSkips(e) {
			w.record(l, d > 0, true, e)
		}
		w.readIndexes(e)
		return
	}
	w.read(e)
}

func lockOp(name string) (acquire, write, ok bool) {
	switch name {
	case "Lock":
		return true, true, true
	case "RLock":
		return true, false, true
	case "Unlock":
		return false, true, true
	case "RUnlock":
		return false, false, true
	}
	return false, false, false
}

// mutexCall: c is X.mu.Lock() etc. on a mutex field of a tracked struct
func (w *fnWalk) mutexCall(c *ast.CallExpr) (lock string, acquire, write, ok bool) {
	sel, ok1 := c.Fun.(*ast.SelectorExpr)
	if !ok1 {
		return
	}
	acq, wr, ok2 := lockOp(sel.Sel.Name)
	if !ok2 {
		return
	}
	inner, ok3 := sel.X.(*ast.SelectorExpr)
	if !ok3 {
		return
	}
	l, ok4 := w.trackedField(inner)
	if !ok4 || !w.x.mutexOf[l] {
		return
	}
	return l, acq, wr, true
}

func (w *fnWalk) call(c *ast.CallExpr) {
	if l, acq, wr, ok := w.mutexCall(c); ok {
		if acq {
			if w.final {
				w.x.acquires = append(w.x.acquires, xAcquire{Fn: w.fn, Lock: xLock{l, wr}, Held: copyHeld(w.held)})
			}
			w.held = append(w.held, xLock{l, wr})
		} else {
			for i := len(w.held) - 1; i >= 0; i-- {
				if w.held[i].Name == l {
					w.held = append(w.held[:i:i], w.held[i+1:]...)
					break
				}
			}
		}
		return
	}
	// builtins that modify their first argument
	if id, ok := c.Fun.(*ast.Ident); ok && (id.Name == "delete" || id.Name == "clear") && len(c.Args) > 0 {
		if l, _, a, ok := w.classify(c.Args[0]); ok && !w.chainSkips(c.Args[0]) {
			_ = a
			w.record(l, true, true, c)
			for _, arg := range c.Args[1:] {
				w.read(arg)
			}
			return
		}
	}
	for _, arg := range c.Args {
		w.read(arg)
	}
	f := w.callee(c)
	if f != nil {
		// a function that hands out what a location points to: the caller goes on to read it
		// with the locks the caller holds
		if l, ok := w.x.escapes[f.FullName()]; ok {
			w.record(l, true, false, c)
		}
	}
	if sel, ok := c.Fun.(*ast.SelectorExpr); ok {
		// a request to the LSP client that waits for the client's answer
		if inner, ok := sel.X.(*ast.SelectorExpr); ok {
			if l, ok := w.trackedField(inner); ok && l == "Server.client" {
				w.record(l, false, false, inner)
				if w.final && clientRequest(sel.Sel.Name, f) {
					w.x.blocks = append(w.x.blocks, xBlock{Fn: w.fn, Call: "client." + sel.Sel.Name, Held: copyHeld(w.held), Pos: w.pos(c)})
				}
				return
			}
		}
		// method call on something rooted at a location
		if l, d, a, ok := w.classify(sel.X); ok && !w.chainSkips(sel.X) {
			recvT := w.info.Types[sel.X].Type
			if n := namedOf(recvT); n != nil && w.x.tracked[n] {
				// the callee is analysed itself; the pointer is only read
				if !(a && d == 0) {
					w.record(l, d > 0, false, sel.X)
				}
			} else if !w.skipLoc(sel.X) {
				mut := f != nil && w.x.mutators[f.FullName()]
				if !(a && d == 0) {
					w.record(l, d > 0, false, sel.X)
				}
				w.record(l, true, mut, c) // the method looks at (or changes) what the field points to
			}
			w.readIndexes(sel.X)
		} else {
			w.read(sel.X)
		}
	}
	if f != nil && isOur(f.Pkg()) && w.final {
		w.x.edges = append(w.x.edges, xEdge{Caller: w.fn, Callee: f.FullName(), Held: copyHeld(w.held)})
	}
}

func clientRequest(name string, f *types.Func) bool {
	if f != nil {
		if sig, ok := f.Type().(*types.Signature); ok {
			return sig.Results().Len() >= 2
		}
	}
	switch name {
	case "Configuration", "ApplyEdit", "ShowMessageRequest", "WorkspaceFolders", "RegisterCapability", "UnregisterCapability", "WorkDoneProgressCreate":
		return true
	}
	return false
}

func terminates(b *ast.BlockStmt) bool {
	if b == nil || len(b.List) == 0 {
		return false
	}
	switch s := b.List[len(b.List)-1].(type) {
	case *ast.ReturnStmt:
		return true
	case *ast.BranchStmt:
		return true
	case *ast.ExprStmt:
		if c, ok := s.X.(*ast.CallExpr); ok {
			if id, ok := c.Fun.(*ast.Ident); ok && id.Name == "panic" {
				return true
			}
		}
	}
	return false
}

func (w *fnWalk) block(b *ast.BlockStmt) {
	if b == nil {
		return
	}
	for _, s := range b.List {
		w.stmt(s)
	}
}

// a branch is walked with a copy of the lock set; a branch that falls through leaves its lock set
func (w *fnWalk) branch(b *ast.BlockStmt) (after []xLock, falls bool) {
	saved := copyHeld(w.held)
	savedDef := map[string]int{}
	for k, v := range w.deferred {
		savedDef[k] = v
	}
	w.block(b)
	after = copyHeld(w.held)
	w.held = saved
	if terminates(b) {
		w.deferred = savedDef // a deferred release inside a branch that returns belongs to that path
	}
	return after, !terminates(b)
}

func intersect(a, b []xLock) []xLock {
	var out []xLock
	for _, x := range a {
		for _, y := range b {
			if x == y {
				out = append(out, x)
				break
			}
		}
	}
	return out
}

func (w *fnWalk) bindAlias(lhs ast.Expr, rhs ast.Expr) {
	id, ok := lhs.(*ast.Ident)
	if !ok || id.Name == "_" {
		return
	}
	obj := w.info.Defs[id]
	if obj == nil {
		obj = w.info.Uses[id]
	}
	if obj == nil {
		return
	}
	if l, d, _, ok := w.classify(rhs); ok && d == 0 && refType(obj.Type()) && !w.chainSkips(rhs) {
		w.alias[obj] = l
	}
}

func (w *fnWalk) stmt(s ast.Stmt) {
	switch v := s.(type) {
	case *ast.ExprStmt:
		w.read(v.X)
	case *ast.DeferStmt:
		if l, acq, _, ok := w.mutexCall(v.Call); ok && !acq {
			w.deferred[l]++
			return // released when the function returns
		}
		if fl, ok := v.Call.Fun.(*ast.FuncLit); ok {
			w.block(fl.Body)
			return
		}
		w.call(v.Call)
	case *ast.GoStmt:
		for _, a := range v.Call.Args {
			w.read(a)
		}
		if f := w.callee(v.Call); f != nil && isOur(f.Pkg()) && w.final {
			w.x.edges = append(w.x.edges, xEdge{Caller: w.fn, Callee: f.FullName(), Go: true})
		}
		if sel, ok := v.Call.Fun.(*ast.SelectorExpr); ok {
			w.read(sel.X)
		}
	case *ast.AssignStmt:
		for _, r := range v.Rhs {
			w.read(r)
		}
		for i, l := range v.Lhs {
			w.write(l)
			if len(v.Lhs) == len(v.Rhs) {
				w.bindAlias(l, v.Rhs[i])
			} else if i == 0 && len(v.Rhs) == 1 {
				w.bindAlias(l, v.Rhs[0])
			}
		}
		if v.Tok != token.ASSIGN && v.Tok != token.DEFINE { // +=
			for _, l := range v.Lhs {
				w.read(l)
			}
		}
	case *ast.IncDecStmt:
		w.read(v.X)
		w.write(v.X)
	case *ast.DeclStmt:
		if gd, ok := v.Decl.(*ast.GenDecl); ok {
			for _, sp := range gd.Specs {
				if vs, ok := sp.(*ast.ValueSpec); ok {
					for i, val := range vs.Values {
						w.read(val)
						if i < len(vs.Names) {
							w.bindAlias(vs.Names[i], val)
						}
					}
				}
			}
		}
	case *ast.ReturnStmt:
		defer w.leakCheck(v)
		for _, r := range v.Results {
			w.read(r)
			if l, d, _, ok := w.classify(r); ok && d == 0 && !w.chainSkips(r) {
				if tv, ok := w.info.Types[r]; ok && refType(tv.Type) {
					w.x.escapes[w.fn] = l
				}
			}
		}
	case *ast.BlockStmt:
		w.block(v)
	case *ast.IfStmt:
		if v.Init != nil {
			w.stmt(v.Init)
		}
		w.read(v.Cond)
		thenAfter, thenFalls := w.branch(v.Body)
		elseAfter, elseFalls := copyHeld(w.held), true
		if v.Else != nil {
			switch e := v.Else.(type) {
			case *ast.BlockStmt:
				elseAfter, elseFalls = w.branch(e)
			default:
				saved := copyHeld(w.held)
				w.stmt(e)
				elseAfter = copyHeld(w.held)
				w.held = saved
			}
		}
		switch {
		case thenFalls && elseFalls:
			w.held = intersect(thenAfter, elseAfter)
		case thenFalls:
			w.held = thenAfter
		case elseFalls:
			w.held = elseAfter
		}
	case *ast.ForStmt:
		if v.Init != nil {
			w.stmt(v.Init)
		}
		w.read(v.Cond)
		saved := copyHeld(w.held)
		w.block(v.Body)
		if v.Post != nil {
			w.stmt(v.Post)
		}
		w.held = saved
	case *ast.RangeStmt:
		w.read(v.X)
		if l, d, _, ok := w.classify(v.X); ok && !w.chainSkips(v.X) {
			w.record(l, true, false, v.X)
			_ = d
			// the range variables of a map / slice of references alias its contents
			for _, kv := range []ast.Expr{v.Key, v.Value} {
				if id, ok := kv.(*ast.Ident); ok && id.Name != "_" {
					if obj := w.info.Defs[id]; obj != nil && refType(obj.Type()) {
						w.alias[obj] = l
					}
				}
			}
		}
		saved := copyHeld(w.held)
		w.block(v.Body)
		w.held = saved
	case *ast.SwitchStmt:
		if v.Init != nil {
			w.stmt(v.Init)
		}
		w.read(v.Tag)
		w.clauses(v.Body)
	case *ast.TypeSwitchStmt:
		if v.Init != nil {
			w.stmt(v.Init)
		}
		w.stmt(v.Assign)
		w.clauses(v.Body)
	case *ast.SelectStmt:
		w.clauses(v.Body)
	case *ast.LabeledStmt:
		w.stmt(v.Stmt)
	case *ast.SendStmt:
		w.read(v.Chan)
		w.read(v.Value)
	}
}

func (w *fnWalk) clauses(b *ast.BlockStmt) {
	saved := copyHeld(w.held)
	for _, c := range b.List {
		switch cc := c.(type) {
		case *ast.CaseClause:
			for _, e := range cc.List {
				w.read(e)
			}
			for _, s := range cc.Body {
				w.stmt(s)
			}
		case *ast.CommClause:
			if cc.Comm != nil {
				w.stmt(cc.Comm)
			}
			for _, s := range cc.Body {
				w.stmt(s)
			}
		}
		w.held = copyHeld(saved)
	}
}

// ---- whole-program part ----
func (x *extractor) eachFunc(f func(path string, info *types.Info, fd *ast.FuncDecl, name string)) {
	for _, path := range ourPkgs {
		for _, file := range x.files[path] {
			for _, d := range file.Decls {
				fd, ok := d.(*ast.FuncDecl)
				if !ok || fd.Body == nil {
					continue
				}
				obj, _ := x.infos[path].Defs[fd.Name].(*types.Func)
				if obj == nil {
					continue
				}
				f(path, x.infos[path], fd, obj.FullName())
			}
		}
	}
}

// methods of non-tracked named types that assign to (something reached from) their receiver
func (x *extractor) findMutators() {
	direct := map[string]bool{}
	calls := map[string][]string{}
	for _, path := range append([]string{modPath + "/internal/ast", modPath + "/internal/analyzer"}, ourPkgs...) {
		info := x.infos[path]
		if info == nil {
			continue
		}
		for _, file := range x.files[path] {
			for _, d := range file.Decls {
				fd, ok := d.(*ast.FuncDecl)
				if !ok || fd.Body == nil || fd.Recv == nil || len(fd.Recv.List) == 0 || len(fd.Recv.List[0].Names) == 0 {
					continue
				}
				obj, _ := info.Defs[fd.Name].(*types.Func)
				recv := info.Defs[fd.Recv.List[0].Names[0]]
				if obj == nil || recv == nil {
					continue
				}
				rooted := func(e ast.Expr) bool {
					for {
						switch v := e.(type) {
						case *ast.ParenExpr:
							e = v.X
						case *ast.StarExpr:
							e = v.X
						case *ast.IndexExpr:
							e = v.X
						case *ast.SelectorExpr:
							e = v.X
						case *ast.Ident:
							return info.Uses[v] == recv
						default:
							return false
						}
					}
				}
				ast.Inspect(fd.Body, func(n ast.Node) bool {
					switch v := n.(type) {
					case *ast.AssignStmt:
						for _, l := range v.Lhs {
							if _, isId := l.(*ast.Ident); !isId && rooted(l) {
								direct[obj.FullName()] = true
							}
						}
					case *ast.IncDecStmt:
						if rooted(v.X) {
							direct[obj.FullName()] = true
						}
					case *ast.CallExpr:
						if id, ok := v.Fun.(*ast.Ident); ok && (id.Name == "delete" || id.Name == "clear") && len(v.Args) > 0 && rooted(v.Args[0]) {
							direct[obj.FullName()] = true
						}
						if sel, ok := v.Fun.(*ast.SelectorExpr); ok && rooted(sel.X) {
							if s := info.Selections[sel]; s != nil {
								if fn, ok := s.Obj().(*types.Func); ok {
									calls[obj.FullName()] = append(calls[obj.FullName()], fn.FullName())
								}
							}
						}
					}
					return true
				})
			}
		}
	}
	for changed := true; changed; {
		changed = false
		for f, cs := range calls {
			if direct[f] {
				continue
			}
			for _, c := range cs {
				if direct[c] {
					direct[f] = true
					changed = true
					break
				}
			}
		}
	}
	x.mutators = direct
}

func runExtractor() (*extractor, error) {
	x := &extractor{fset: token.NewFileSet(), pkgs: map[string]*types.Package{}, infos: map[string]*types.Info{}, files: map[string][]*ast.File{},
		tracked: map[*types.Named]bool{}, mutexOf: map[string]bool{}, escapes: map[string]string{}}
	x.std = importer.ForCompiler(x.fset, "source", nil)
	cwd, _ := os.Getwd()
	_ = os.Chdir("/repo") // the source importer resolves module dependencies relative to the module
	defer os.Chdir(cwd)
	for _, p := range ourPkgs {
		if _, err := x.Import(p); err != nil {
			return nil, err
		}
	}
	// tracked structs and their mutex fields
	for _, p := range ourPkgs {
		sc := x.pkgs[p].Scope()
		for _, name := range sc.Names() {
			tn, ok := sc.Lookup(name).(*types.TypeName)
			if !ok {
				continue
			}
			n, ok := tn.Type().(*types.Named)
			if !ok {
				continue
			}
			st, ok := n.Underlying().(*types.Struct)
			if !ok {
				continue
			}
			for i := 0; i < st.NumFields(); i++ {
				if isMutex(st.Field(i).Type()) {
					x.tracked[n] = true
					x.mutexOf[n.Obj().Name()+"."+st.Field(i).Name()] = true
				}
			}
		}
	}
	x.findMutators()
	// escapes need a fixed point: three passes are enough for chains of length three
	for pass := 0; pass < 4; pass++ {
		final := pass == 3
		x.eachFunc(func(path string, info *types.Info, fd *ast.FuncDecl, name string) {
			w := &fnWalk{x: x, info: info, fn: name, alias: map[types.Object]string{}, final: final, deferred: map[string]int{}}
			w.block(fd.Body)
			if !terminates(fd.Body) {
				w.leakCheck(fd.Body)
			}
			if final {
				x.funcs++
			}
		})
	}
	return x, nil
}

// ---- contexts: which thread kinds run a function, with which locks already held ----
type xCtx struct {
	Kind int
	Held string // canonical
}

const (
	kindInit = 0
	kindDisp = 1
)

func canon(h []xLock) string {
	m := map[string]bool{}
	for _, l := range h {
		if l.Write {
			m[l.Name] = true
		} else if _, ok := m[l.Name]; !ok {
			m[l.Name] = false
		}
	}
	var ks []string
	for k := range m {
		ks = append(ks, k)
	}
	sort.Strings(ks)
	var out []string
	for _, k := range ks {
		if m[k] {
			out = append(out, k+":W")
		} else {
			out = append(out, k+":R")
		}
	}
	return strings.Join(out, ",")
}
func uncanon(s string) []xLock {
	if s == "" {
		return nil
	}
	var out []xLock
	for _, p := range strings.Split(s, ",") {
		i := strings.LastIndex(p, ":")
		out = append(out, xLock{p[:i], p[i+1:] == "W"})
	}
	return out
}

type xTable struct {
	Leaks     []xLeak
	Kinds     []string // kind id -> name
	Rows      map[string][]xRow
	Blocks    []xBRow
	Order     [][2]string
	Functions int
	Accesses  int
}
type xRow struct {
	Kind  int
	Loc   string
	Write bool
	Held  string
	Where string
}
type xBRow struct {
	Kind  int
	Call  string
	Held  string
	Where string
}

func buildTable(x *extractor) *xTable {
	srvPrefix := "(*" + modPath + "/internal/server.Server)."
	kinds := []string{"init", "dispatcher"}
	kindOfGo := map[string]int{}
	out := map[string][]xEdge{}
	for _, e := range x.edges {
		out[e.Caller] = append(out[e.Caller], e)
		if e.Go {
			if _, ok := kindOfGo[e.Callee]; !ok {
				kindOfGo[e.Callee] = len(kinds)
				kinds = append(kinds, "background:"+strings.TrimPrefix(e.Callee, srvPrefix))
			}
		}
	}
	ctxs := map[string]map[xCtx]bool{}
	var queue []struct {
		fn string
		c  xCtx
	}
	add := func(fn string, c xCtx) {
		if ctxs[fn] == nil {
			ctxs[fn] = map[xCtx]bool{}
		}
		if !ctxs[fn][c] {
			ctxs[fn][c] = true
			queue = append(queue, struct {
				fn string
				c  xCtx
			}{fn, c})
		}
	}
	initRoots := map[string]bool{srvPrefix + "Initialize": true, srvPrefix + "SetClient": true, modPath + "/internal/server.NewServer": true}
	x.eachFunc(func(path string, info *types.Info, fd *ast.FuncDecl, name string) {
		if initRoots[name] {
			add(name, xCtx{kindInit, ""})
		} else if strings.HasPrefix(name, srvPrefix) && ast.IsExported(fd.Name.Name) && !strings.HasPrefix(fd.Name.Name, "Verif") {
			add(name, xCtx{kindDisp, ""})
		}
	})
	for len(queue) > 0 {
		it := queue[0]
		queue = queue[1:]
		for _, e := range out[it.fn] {
			if e.Go {
				add(e.Callee, xCtx{kindOfGo[e.Callee], ""})
			} else {
				add(e.Callee, xCtx{it.c.Kind, canon(append(uncanon(it.c.Held), e.Held...))})
			}
		}
	}
	t := &xTable{Kinds: kinds, Rows: map[string][]xRow{}, Functions: x.funcs, Accesses: len(x.accesses), Leaks: x.leaks}
	seen := map[string]bool{}
	for _, a := range x.accesses {
		loc := a.Loc
		if a.Deep {
			loc += "/deep"
		}
		for c := range ctxs[a.Fn] {
			r := xRow{Kind: c.Kind, Loc: loc, Write: a.Write, Held: canon(append(uncanon(c.Held), a.Held...)), Where: a.Pos}
			key := fmt.Sprintf("%d|%s|%v|%s", r.Kind, r.Loc, r.Write, r.Held)
			if !seen[key] {
				seen[key] = true
				t.Rows[loc] = append(t.Rows[loc], r)
			}
		}
	}
	for _, b := range x.blocks {
		for c := range ctxs[b.Fn] {
			t.Blocks = append(t.Blocks, xBRow{Kind: c.Kind, Call: b.Call, Held: canon(append(uncanon(c.Held), b.Held...)), Where: b.Pos})
		}
	}
	oseen := map[[2]string]bool{}
	for _, a := range x.acquires {
		for c := range ctxs[a.Fn] {
			for _, h := range append(uncanon(c.Held), a.Held...) {
				e := [2]string{h.Name, a.Lock.Name}
				if !oseen[e] {
					oseen[e] = true
					t.Order = append(t.Order, e)
				}
			}
		}
	}
	sort.Slice(t.Order, func(i, j int) bool { return t.Order[i][0]+t.Order[i][1] < t.Order[j][0]+t.Order[j][1] })
	sort.Slice(t.Blocks, func(i, j int) bool { return t.Blocks[i].Where+t.Blocks[i].Held < t.Blocks[j].Where+t.Blocks[j].Held })
	for _, rs := range t.Rows {
		sort.Slice(rs, func(i, j int) bool {
			a, b := rs[i], rs[j]
			return fmt.Sprint(a.Kind, a.Write, a.Held, a.Where) < fmt.Sprint(b.Kind, b.Write, b.Held, b.Where)
		})
	}
	return t
}
