package main

import (
	"context"
	"encoding/json"
	"fmt"
	"os"
	"path/filepath"
	"regexp"
	"strconv"
	"strings"

	"github.com/shopspring/decimal"
	"go.lsp.dev/protocol"

	"github.com/juev/hledger-lsp/internal/ast"
	"github.com/juev/hledger-lsp/internal/parser"
)

func init() { runners["C20"] = runC20 }

type c20Int struct {
	Acct string `json:"a"`
	Sym  string `json:"s"`
	Mant int64  `json:"m"`
	Exp  int    `json:"e"`
}
type c20Case struct {
	Files    map[string]string   `json:"files"` // name (without .journal) -> content; "main" is the root
	Intended map[string][]c20Int `json:"intended"`
	Current string            `json:"current"`
	HasRoot bool              `json:"has_root"`
	Edits   int               `json:"edits"` // number of edit+hover rounds after the first
	// the root is the open document and its include lines are typed in by the first edit (they are neither in
	// the file on disk nor in the text opened): the tree reaches files it did not hold, some through others
	LateInc bool `json:"late_inc,omitempty"`
}

var c20Accts = []string{"assets:cash", "assets:bank", "expenses:food", "income:job", "my:acct", "expenses:food:lunch"}
var c20Payees = []string{"shop", "cafe", "employer", "landlord"}

func c20Txs(r *rng, st *stats, n int) (string, []c20Int) {
	var sb strings.Builder
	var ints []c20Int
	for i := 0; i < n; i++ {
		sb.WriteString(fmt.Sprintf("2024-%02d-%02d %s\n", r.rangeInt(1, 12), r.rangeInt(1, 28), pick(r, c20Payees)))
		k := r.rangeInt(1, 3)
		for j := 0; j < k; j++ {
			dec := pickW(r, []int{2, 0, 4, 12}, []int{60, 15, 15, 10})
			mant := int64(r.rangeInt(-3000000, 3000000))
			if r.chance(12) {
				dec, mant = 3, int64(r.rangeInt(-999, 999)) // 0.125, -0.500: three decimals under a zero integer part
				st.count("amount:zero-int-three-decimals")
			}
			a := genAmount(r, genOpts{}, pick(r, []string{"USD", "EUR", "$"}), mant, dec)
			if a.Side == "L" && a.Glue {
				a.Glue = false
				a.Side = "R"
			}
			if a.Group == " " && a.Dec == 3 {
				a.Group = ""
			}
			acct := pick(r, c20Accts)
			ints = append(ints, c20Int{acct, a.Sym, a.Mant, a.exp10()})
			line := "    " + acct + "  " + a.text()
			if r.chance(20) {
				line += "  ; " + pick(r, []string{"trip:paris", "trip:rome", "who:me", "note"})
				st.count("posting:tagged")
			}
			sb.WriteString(line + "\n")
		}
		if r.chance(60) {
			sb.WriteString("    " + pick(r, c20Accts) + "\n")
			st.count("posting:no-amount")
		}
		sb.WriteString("\n")
	}
	return sb.String(), ints
}

func c20Gen(r *rng, st *stats) c20Case {
	c := c20Case{Files: map[string]string{}, Intended: map[string][]c20Int{}, HasRoot: r.chance(50), Edits: r.rangeInt(0, 2)}
	shape := pickW(r, []string{"single", "flat", "chain", "diamond", "double"}, []int{15, 25, 30, 20, 10})
	st.count("shape:" + shape)
	inc := map[string][]string{}
	switch shape {
	case "single":
	case "flat":
		inc["main"] = []string{"a", "b"}
	case "chain":
		inc["main"] = []string{"a"}
		inc["a"] = []string{"c"}
	case "diamond":
		inc["main"] = []string{"a", "b"}
		inc["a"] = []string{"c"}
		inc["b"] = []string{"c"}
	case "double":
		inc["main"] = []string{"a", "a"}
	}
	names := map[string]bool{"main": true}
	for _, l := range inc {
		for _, n := range l {
			names[n] = true
		}
	}
	for n := range names {
		var sb strings.Builder
		for _, i := range inc[n] {
			sb.WriteString("include " + i + ".journal\n")
		}
		txt, ints := c20Txs(r, st, r.rangeInt(1, 3))
		sb.WriteString("\n" + txt)
		c.Files[n] = sb.String()
		c.Intended[n] = ints
	}
	var ns []string
	for n := range names {
		ns = append(ns, n)
	}
	sortStrings(ns)
	c.Current = pick(r, ns)
	if r.chance(60) {
		c.Current = "main"
	}
	if c.Current == "main" && len(inc["main"]) > 0 && r.chance(35) {
		c.LateInc = true
		if c.Edits == 0 {
			c.Edits = 1
		}
		st.count("late-include:" + shape)
	}
	if c.HasRoot {
		st.count("root:yes")
	} else {
		st.count("root:no")
	}
	return c
}

// splitIncludes separates the leading include lines of a generated file from the rest.
func splitIncludes(text string) (incs, rest string) {
	for strings.HasPrefix(text, "include ") {
		i := strings.Index(text, "\n")
		incs, text = incs+text[:i+1], text[i+1:]
	}
	return incs, text
}

func sortStrings(s []string) {
	for i := 1; i < len(s); i++ {
		for j := i; j > 0 && s[j] < s[j-1]; j-- {
			s[j], s[j-1] = s[j-1], s[j]
		}
	}
}

var reBal = regexp.MustCompile(`(?m)^- (\S+) (.*)$`)
var reCount = regexp.MustCompile(`\*\*(Postings|Transactions|Usage):\*\* (\d+)`)

func includesOf(text string) []string {
	var out []string
	for _, ln := range strings.Split(text, "\n") {
		if strings.HasPrefix(ln, "include ") {
			out = append(out, strings.TrimSuffix(strings.TrimPrefix(ln, "include "), ".journal"))
		}
	}
	return out
}

// scope the property names: the given file and every file of its include tree, each once
func treeOnce(files map[string]string, root string, curText map[string]string) []string {
	seen := map[string]bool{}
	var order []string
	var walk func(n string)
	walk = func(n string) {
		if seen[n] {
			return
		}
		if _, ok := files[n]; !ok {
			return
		}
		seen[n] = true
		order = append(order, n)
		t := files[n]
		if ct, ok := curText[n]; ok {
			t = ct
		}
		for _, i := range includesOf(t) {
			walk(i)
		}
	}
	walk(root)
	return order
}

func gTxList(txs []ast.Transaction) string {
	var items []string
	for _, t := range txs {
		items = append(items, gTx(t))
	}
	return gList(items)
}

func c20Run(c c20Case) (string, int, error) {
	fm := map[string]string{}
	for n, t := range c.Files {
		fm[n+".journal"] = t
	}
	lateIncs := ""
	if c.LateInc && c.Current == "main" {
		var rest string
		lateIncs, rest = splitIncludes(c.Files["main"])
		fm["main.journal"] = rest
		files := map[string]string{}
		for n, t := range c.Files {
			files[n] = t
		}
		files["main"] = rest
		c.Files = files
	}
	dir, err := tempWorkspace(fm)
	if err != nil {
		return "", 0, err
	}
	defer os.RemoveAll(dir)
	root := ""
	if c.HasRoot {
		root = dir
	}
	srv, _, base := newServerAt(root, nil)
	ctx := context.Background()
	u := fileURI(filepath.Join(dir, c.Current+".journal"))
	text := c.Files[c.Current]
	_ = srv.DidOpen(ctx, &protocol.DidOpenTextDocumentParams{TextDocument: protocol.TextDocumentItem{URI: u, Text: text}})
	if !quiesce(base) {
		return "", 0, fmt.Errorf("analysis did not finish")
	}
	var rounds []string
	nhovers := 0
	flag := 0
	var extra []c20Int // intended amounts of the edits made to the open document
	doHovers := func() error {
		var hovers []string
		cur, _ := parser.Parse(text)
		// transaction list the server aggregates over
		var src []ast.Transaction
		if ws := srv.Workspace(); ws != nil && ws.GetResolved() != nil {
			src = ws.GetResolved().AllTransactions()
		} else if res := srv.GetResolved(u); res != nil {
			src = res.AllTransactions()
		} else {
			src = cur.Transactions
		}
		// scope per the property
		curText := map[string]string{c.Current: text}
		var scopeFiles []string
		if c.HasRoot {
			scopeFiles = treeOnce(c.Files, "main", curText)
			in := false
			for _, n := range scopeFiles {
				if n == c.Current {
					in = true
				}
			}
			if !in {
				scopeFiles = append(scopeFiles, treeOnce(c.Files, c.Current, curText)...)
			}
		} else {
			scopeFiles = treeOnce(c.Files, c.Current, curText)
		}
		var scope []ast.Transaction
		for _, n := range scopeFiles {
			t := c.Files[n]
			if n == c.Current {
				t = text
			}
			j, _ := parser.Parse(t)
			scope = append(scope, j.Transactions...)
		}
		srcG, scopeG := gTxList(src), gTxList(scope)
		var intG []string
		for _, n := range scopeFiles {
			for _, x := range c.Intended[n] {
				intG = append(intG, fmt.Sprintf("(%s, %s, mkDec %s %s)", gBytes(x.Acct), gBytes(x.Sym), gZ(x.Mant), gZ(int64(x.Exp))))
			}
			if n == c.Current {
				for _, x := range extra {
					intG = append(intG, fmt.Sprintf("(%s, %s, mkDec %s %s)", gBytes(x.Acct), gBytes(x.Sym), gZ(x.Mant), gZ(int64(x.Exp))))
				}
			}
		}
		done := map[string]bool{}
		for _, t := range cur.Transactions {
			type target struct {
				kind string
				pos  protocol.Position
			}
			var ts []target
			if t.Description != "" {
				ts = append(ts, target{"(HPayee " + gBytes(t.Description) + ")", protocol.Position{Line: uint32(t.Range.Start.Line - 1), Character: 12}})
			}
			for _, p := range t.Postings {
				ts = append(ts, target{"(HAccount " + gBytes(p.Account.Name) + ")", protocol.Position{Line: uint32(p.Account.Range.Start.Line - 1), Character: uint32(p.Account.Range.Start.Column)}})
				for _, g := range p.Tags {
					ts = append(ts, target{"(HTag " + gBytes(g.Name) + ")", protocol.Position{Line: uint32(g.Range.Start.Line - 1), Character: uint32(g.Range.Start.Column - 1)}})
				}
			}
			for _, tg := range ts {
				if done[tg.kind] {
					continue
				}
				done[tg.kind] = true
				hv, err := srv.Hover(ctx, &protocol.HoverParams{TextDocumentPositionParams: protocol.TextDocumentPositionParams{TextDocument: protocol.TextDocumentIdentifier{URI: u}, Position: tg.pos}})
				if err != nil || hv == nil {
					continue
				}
				md := hv.Contents.Value
				want := map[string]string{"(HAc": "**Account:**", "(HPa": "**Payee:**", "(HTa": "**Tag:**"}[tg.kind[:4]]
				if !strings.HasPrefix(md, want) {
					continue // the position resolved to another element (ranges are C08's subject)
				}
				var bal []string
				if strings.HasPrefix(tg.kind, "(HAccount") {
					for _, m := range reBal.FindAllStringSubmatch(md, -1) {
						d, err := decimal.NewFromString(m[1])
						if err != nil {
							return fmt.Errorf("unexpected balance line %q", m[0])
						}
						bal = append(bal, "("+gBytes(m[2])+", "+gDec(d)+")")
					}
				}
				cm := reCount.FindStringSubmatch(md)
				if cm == nil {
					return fmt.Errorf("no count in hover %q", md)
				}
				n, _ := strconv.Atoi(cm[2])
				hovers = append(hovers, fmt.Sprintf("(mkHobs %s %s %d%%nat)", tg.kind, gList(bal), n))
			}
		}
		nhovers += len(hovers)
		rounds = append(rounds, fmt.Sprintf("(mkRound %s %s %s %s)", srcG, scopeG, gList(intG), gList(hovers)))
		return nil
	}
	if err := doHovers(); err != nil {
		return "", 0, err
	}
	for e := 0; e < c.Edits; e++ {
		if e == 0 && lateIncs != "" {
			text = lateIncs + text
		}
		text += fmt.Sprintf("\n2024-12-%02d edit\n    assets:cash  %d USD\n    income:job\n", e+1, e+5)
		extra = append(extra, c20Int{"assets:cash", "USD", int64(e + 5), 0})
		_ = srv.DidChange(ctx, &protocol.DidChangeTextDocumentParams{
			TextDocument:   protocol.VersionedTextDocumentIdentifier{TextDocumentIdentifier: protocol.TextDocumentIdentifier{URI: u}, Version: int32(e + 2)},
			ContentChanges: []protocol.TextDocumentContentChangeEvent{{Text: text}}})
		if !quiesce(base) {
			return "", 0, fmt.Errorf("analysis did not finish")
		}
		if err := doHovers(); err != nil {
			return "", 0, err
		}
	}
	// known class 1: no workspace root, the open document has includes and was edited: the
	// second background load is served from the shared loader's cache (C11 findings: nested
	// files vanish, a file included twice is listed twice)
	if !c.HasRoot && len(includesOf(c.Files[c.Current])) > 0 && c.Edits > 0 {
		flag = 1
	}
	// known class 2: with a root, a diamond or double include in the root's tree (C10 finding:
	// the file is loaded once but the duplicate include is an error; sums stay exact) - not a class here
	_ = srv.DidClose(ctx, &protocol.DidCloseTextDocumentParams{TextDocument: protocol.TextDocumentIdentifier{URI: u}})
	return fmt.Sprintf("(mkCase %s %d)", gList(rounds), flag), nhovers, nil
}

func runC20(o opts) error {
	st := newStats("C20", o.seed, "case = a directory of 1..4 journals (single, flat, chain, diamond, double include) with generated transactions (amounts up to 12 decimals, grouped notations, postings with and without amounts, tags), opened from the root or an included file with or without a workspace root; hover on every distinct account, payee and tag of the open document, then 0..2 edits each followed by the same hovers; non-trivial = at least one include and one hover answered; distinct by hash")
	return runGeneric(o, st, "case", func(raw json.RawMessage) (string, bool, string, error) {
		var c c20Case
		if err := json.Unmarshal(raw, &c); err != nil {
			return "", false, "", err
		}
		t, _, err := c20Run(c)
		return t, true, string(raw), err
	}, func(r *rng, i int) (interface{}, string, bool, error) {
		c := c20Gen(r, st)
		st.count("source:generated")
		t, n, err := c20Run(c)
		return c, t, len(c.Files) > 1 && n > 0, err
	})
}
