package main

import (
	"context"
	"errors"
	"runtime"
	"sync"
	"time"

	"go.lsp.dev/protocol"
)

// stubClient is the protocol.Client the in-process server talks to. It records every
// publishDiagnostics call, can withhold them (C13), and answers workspace/configuration.
type stubClient struct {
	mu        sync.Mutex
	published []*protocol.PublishDiagnosticsParams
	// gating: when hold is true every PublishDiagnostics call blocks until released.
	hold    bool
	waiting []*heldPublish
	// configuration reply
	cfgReply  []interface{}
	cfgErr    bool
	cfgCalls  int
	// when cfgHold is set, the next workspace/configuration request takes its reply as it stands now and is
	// answered only when the channel is closed (a slow client: the answer arrives after later ones)
	cfgHold chan struct{}
	cfgHeld int
	logs      []string
}

type heldPublish struct {
	params  *protocol.PublishDiagnosticsParams
	release chan struct{}
}

func (c *stubClient) Progress(context.Context, *protocol.ProgressParams) error { return nil }
func (c *stubClient) WorkDoneProgressCreate(context.Context, *protocol.WorkDoneProgressCreateParams) error {
	return nil
}
func (c *stubClient) LogMessage(_ context.Context, p *protocol.LogMessageParams) error {
	c.mu.Lock()
	c.logs = append(c.logs, p.Message)
	c.mu.Unlock()
	return nil
}
func (c *stubClient) PublishDiagnostics(_ context.Context, p *protocol.PublishDiagnosticsParams) error {
	c.mu.Lock()
	if c.hold {
		h := &heldPublish{params: p, release: make(chan struct{})}
		c.waiting = append(c.waiting, h)
		c.mu.Unlock()
		<-h.release
		c.mu.Lock()
	}
	c.published = append(c.published, p)
	c.mu.Unlock()
	return nil
}
func (c *stubClient) ShowMessage(context.Context, *protocol.ShowMessageParams) error { return nil }
func (c *stubClient) ShowMessageRequest(context.Context, *protocol.ShowMessageRequestParams) (*protocol.MessageActionItem, error) {
	return nil, nil
}
func (c *stubClient) Telemetry(context.Context, interface{}) error { return nil }
func (c *stubClient) RegisterCapability(context.Context, *protocol.RegistrationParams) error {
	return nil
}
func (c *stubClient) UnregisterCapability(context.Context, *protocol.UnregistrationParams) error {
	return nil
}
func (c *stubClient) ApplyEdit(context.Context, *protocol.ApplyWorkspaceEditParams) (bool, error) {
	return false, nil
}
func (c *stubClient) Configuration(context.Context, *protocol.ConfigurationParams) ([]interface{}, error) {
	c.mu.Lock()
	defer c.mu.Unlock()
	c.cfgCalls++
	if c.cfgErr {
		return nil, errors.New("configuration unavailable")
	}
	reply := c.cfgReply
	if hold := c.cfgHold; hold != nil {
		c.cfgHold = nil
		c.cfgHeld++
		c.mu.Unlock()
		<-hold
		c.mu.Lock()
	}
	return reply, nil
}
func (c *stubClient) WorkspaceFolders(context.Context) ([]protocol.WorkspaceFolder, error) {
	return nil, nil
}

func (c *stubClient) publishedCount() int {
	c.mu.Lock()
	defer c.mu.Unlock()
	return len(c.published)
}

func (c *stubClient) waitingCount() int {
	c.mu.Lock()
	defer c.mu.Unlock()
	return len(c.waiting)
}

// lastPublished returns the last diagnostics published for uri (nil,false if none).
func (c *stubClient) lastPublished(uri protocol.DocumentURI) (*protocol.PublishDiagnosticsParams, bool) {
	c.mu.Lock()
	defer c.mu.Unlock()
	for i := len(c.published) - 1; i >= 0; i-- {
		if c.published[i].URI == uri {
			return c.published[i], true
		}
	}
	return nil, false
}

// quiesce waits until the goroutines the server started have finished (goroutine count back to base).
func quiesce(base int) bool {
	deadline := time.Now().Add(10 * time.Second)
	for runtime.NumGoroutine() > base {
		if time.Now().After(deadline) {
			return false
		}
		time.Sleep(20 * time.Microsecond)
	}
	return true
}

// waitUntil polls cond.
func waitUntil(cond func() bool, d time.Duration) bool {
	deadline := time.Now().Add(d)
	for !cond() {
		if time.Now().After(deadline) {
			return false
		}
		time.Sleep(20 * time.Microsecond)
	}
	return true
}
