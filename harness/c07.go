package main

import (
	"encoding/json"
	"fmt"
	"os"
	"strings"

	"github.com/juev/hledger-lsp/internal/parser"
)

func init() { runners["C07"] = runC07 }

type c07Case struct {
	Journal GJournal `json:"journal"` // blank-line separated entries, LF, no risky spelling class
	Entry   int      `json:"entry"`   // index of the damaged item
	Damaged []string `json:"damaged"` // the lines that replace the entry's lines
	Kind    string   `json:"kind"`
}

func c07ItemLines(it GItem) []string {
	switch {
	case it.Tx != nil:
		return it.Tx.lines()
	case it.Dir != nil:
		return it.Dir.lines()
	}
	return []string{"; " + it.Comment}
}

var c07Junk = []string{"@", "=", "==", "@@", ")", "(", "]", "[", "|", "\"", "*", "!", "-", "~", "#", ":", "1.2.3.4", "$", "\xff", "\xc3", "(((", "\"unterminated", "(code"}

func c07Damage(r *rng, lines []string, st *stats) ([]string, string) {
	out := append([]string(nil), lines...)
	kind := pick(r, []string{"random-bytes", "truncate", "delete-line", "duplicate-line", "reorder", "unbalanced", "stray-operator", "insert-junk-token"})
	li := r.intn(len(out))
	switch kind {
	case "random-bytes":
		b := []byte(out[li])
		for k := 0; k < r.rangeInt(1, 4) && len(b) > 0; k++ {
			c := byte(r.intn(256))
			if c == '\n' {
				c = 'x'
			}
			b[r.intn(len(b))] = c
		}
		out[li] = string(b)
	case "truncate":
		if len(out[li]) > 0 {
			out[li] = out[li][:r.intn(len(out[li]))]
		}
	case "delete-line":
		if len(out) > 1 && li > 0 { // deleting the header would hand the postings to the previous entry's rule (DESIGN 5 C07 (ii)); keep the header
			out = append(out[:li], out[li+1:]...)
		} else {
			out[li] = out[li] + " " + pick(r, c07Junk)
		}
	case "duplicate-line":
		if li > 0 {
			out = append(out[:li+1], out[li:]...)
		} else {
			out[li] = out[li] + pick(r, c07Junk)
		}
	case "reorder":
		if len(out) > 2 {
			a, b := 1+r.intn(len(out)-1), 1+r.intn(len(out)-1)
			out[a], out[b] = out[b], out[a]
		} else {
			out[li] = pick(r, c07Junk) + out[li]
		}
	case "unbalanced":
		out[li] = out[li] + pick(r, []string{" \"open", " (open", " [open", " )", " ]"})
	case "stray-operator":
		p := r.intn(len(out[li]) + 1)
		out[li] = out[li][:p] + pick(r, []string{" @ ", " = ", " @@ ", "==", " | "}) + out[li][p:]
	default:
		p := r.intn(len(out[li]) + 1)
		out[li] = out[li][:p] + pick(r, c07Junk) + out[li][p:]
	}
	// the damaged text must not start with an indented line (that would be a continuation of the
	// previous entry by the format's own rule) unless the original did
	if len(out) > 0 && len(lines) > 0 && (strings.HasPrefix(out[0], " ") || strings.HasPrefix(out[0], "\t")) && !(strings.HasPrefix(lines[0], " ") || strings.HasPrefix(lines[0], "\t")) {
		out[0] = "x" + out[0]
	}
	for i := range out {
		out[i] = strings.ReplaceAll(out[i], "\n", " ")
	}
	st.count("damage:" + kind)
	return out, kind
}

func c07Gen(r *rng, st *stats) c07Case {
	o := genOpts{NonASCII: true, Tags: true, Directives: true, Quoted: true}
	j := GJournal{EOL: "\n"}
	n := r.rangeInt(2, 6)
	for i := 0; i < n; i++ {
		k := r.intn(100)
		switch {
		case k < 70:
			t := c03GenTx(r, st, o, "")
			if len(t.Postings) == 0 {
				ind, sep := genIndentSep(r, o)
				a := genAmount(r, genOpts{}, "USD", 100, 2)
				a.Side, a.Glue = "R", false
				t.Postings = append(t.Postings, GPosting{Account: "a:b", Amount: &a, Indent: ind, Sep: sep})
			}
			j.Items = append(j.Items, GItem{Tx: &t, Blank: pickW(r, []int{0, 1, 2}, []int{35, 45, 20})})
		case k < 80:
			j.Items = append(j.Items, GItem{Dir: &GDirective{Kind: "account", Arg: genAccount(r, o)}, Blank: 1})
		case k < 88:
			j.Items = append(j.Items, GItem{Dir: &GDirective{Kind: "commodity", Arg: pick(r, []string{"USD", "EUR"})}, Blank: 1})
		case k < 94:
			j.Items = append(j.Items, GItem{Dir: &GDirective{Kind: "include", Arg: "other.journal"}, Blank: 1})
		default:
			j.Items = append(j.Items, GItem{Comment: "a comment", Blank: 1})
		}
	}
	e := r.intn(len(j.Items))
	dm, kind := c07Damage(r, c07ItemLines(j.Items[e]), st)
	return c07Case{Journal: j, Entry: e, Damaged: dm, Kind: kind}
}

func c07Run(c c07Case) (string, error) {
	text1 := c.Journal.text()
	// lines of J before the entry
	lo := 1
	for i := 0; i < c.Entry; i++ {
		lo += len(c07ItemLines(c.Journal.Items[i])) + c.Journal.Items[i].Blank
	}
	n1 := len(c07ItemLines(c.Journal.Items[c.Entry]))
	lines := strings.Split(text1, "\n")
	var out []string
	out = append(out, lines[:lo-1]...)
	out = append(out, c.Damaged...)
	out = append(out, lines[lo-1+n1:]...)
	text2 := strings.Join(out, "\n")
	j1, errs1 := parser.Parse(text1)
	var es1 []string
	for _, e := range errs1 {
		es1 = append(es1, fmt.Sprintf("(%d, %d)", e.Pos.Line, e.Pos.Column))
	}
	j2, errs2 := parser.Parse(text2)
	if os.Getenv("VERIF_DEBUG") != "" {
		fmt.Fprintf(os.Stderr, "---- J'\n%s\n---- lo=%d hi1=%d hi2=%d\n", text2, lo, lo+n1, lo+len(c.Damaged))
		for _, t := range j1.Transactions {
			fmt.Fprintf(os.Stderr, "J  tx line %d %q postings %d\n", t.Range.Start.Line, t.Description, len(t.Postings))
		}
		for _, t := range j2.Transactions {
			fmt.Fprintf(os.Stderr, "J' tx line %d %q postings %d\n", t.Range.Start.Line, t.Description, len(t.Postings))
		}
		for _, e := range errs2 {
			fmt.Fprintf(os.Stderr, "J' err %d:%d %s\n", e.Pos.Line, e.Pos.Column, e.Message)
		}
	}
	var es []string
	for _, e := range errs2 {
		es = append(es, fmt.Sprintf("(%d, %d)", e.Pos.Line, e.Pos.Column))
	}
	// the blank line(s) after the entry belong to the damaged region's resynchronisation zone
	return fmt.Sprintf("(mkCase %s %s %s %s %s %s %s %s)", gBytes(text2), gJournal(j1), gList(es1), gJournal(j2), gList(es),
		gZ(int64(lo)), gZ(int64(lo+n1)), gZ(int64(lo+len(c.Damaged)))), nil
}

func runC07(o opts) error {
	st := newStats("C07", o.seed, "case = a journal of 2..6 blank-line separated entries from G (LF, no risky spelling class) and a damage applied to the lines of one entry (random bytes, truncation, deleted / duplicated / reordered lines, unbalanced quotes or brackets, stray operators, junk tokens incl. invalid UTF-8); both texts parsed by the real parser; non-trivial = the damaged text has a syntax error; distinct by hash")
	return runGeneric(o, st, "case", func(raw json.RawMessage) (string, bool, string, error) {
		var c c07Case
		if err := json.Unmarshal(raw, &c); err != nil {
			return "", false, "", err
		}
		t, err := c07Run(c)
		return t, true, string(raw), err
	}, func(r *rng, i int) (interface{}, string, bool, error) {
		c := c07Gen(r, st)
		st.count("source:generated")
		t, err := c07Run(c)
		return c, t, true, err
	})
}
