package main

// Race-detector stress for C14. The parent (runC14) builds this harness with -race and runs it as
// a child per batch; the child drives scenarios against an in-process server and prints one JSON
// line per scenario; the race detector's reports go to a log file the parent reads afterwards.
// A scenario is a serial stream of notifications and requests (the dispatcher) issued without
// waiting for the background goroutines the server starts; the same stream is then replayed on a
// fresh server with a wait after every notification, and the responses are compared.

import (
	"bytes"
	"context"
	"crypto/sha256"
	"encoding/hex"
	"encoding/json"
	"fmt"
	"os"
	"os/exec"
	"path/filepath"
	"regexp"
	"runtime"
	"sort"
	"strings"
	"sync"
	"time"

	"go.lsp.dev/protocol"

	"github.com/juev/hledger-lsp/internal/server"
)

func init() { runners["c14child"] = runC14Child }

type stressOp struct {
	Op   string `json:"op"` // open change save config hover completion format symbols tokens references
	Doc  int    `json:"doc"`
	Text string `json:"text,omitempty"`
	Line int    `json:"line,omitempty"`
	Char int    `json:"char,omitempty"`
}
type stressScenario struct {
	Root  bool              `json:"root"` // the workspace has a root journal that includes the other documents
	Files map[string]string `json:"files"`
	Ops   []stressOp        `json:"ops"`
	Cfg   []string          `json:"cfg"` // cli.path answered by the i-th workspace/configuration request
	Delay []int             `json:"delay_us"`
}
type stressResult struct {
	ID       int      `json:"id"`
	Hang     bool     `json:"hang"`
	Mismatch []string `json:"mismatch"`
	Requests int      `json:"requests"`
	Crash    string   `json:"crash,omitempty"`
}

var stressAccts = []string{"assets:cash", "assets:bank", "expenses:food", "expenses:rent", "income:salary", "equity:opening"}

func stressDocText(r *rng, inc []string) string {
	var sb strings.Builder
	for _, i := range inc {
		sb.WriteString("include " + i + "\n")
	}
	if r.chance(50) {
		sb.WriteString("account " + pick(r, stressAccts) + "\n")
	}
	if r.chance(30) {
		sb.WriteString("commodity 1,000.00 USD\n")
	}
	for i, n := 0, r.rangeInt(1, 4); i < n; i++ {
		sb.WriteString(fmt.Sprintf("2024-%02d-%02d %s\n    %s  %d USD\n    %s\n", r.rangeInt(1, 12), r.rangeInt(1, 28), pick(r, []string{"shop", "cafe", "rent"}), pick(r, stressAccts), r.rangeInt(1, 500), pick(r, stressAccts)))
	}
	return sb.String()
}

func stressGen(r *rng) stressScenario {
	sc := stressScenario{Root: r.chance(70), Files: map[string]string{}}
	ndocs := r.rangeInt(1, 3)
	names := []string{"main.journal", "a.journal", "b.journal"}[:ndocs]
	if !sc.Root {
		names = []string{"x1.journal", "x2.journal", "x3.journal"}[:ndocs]
	}
	for i, n := range names {
		var inc []string
		if sc.Root && i == 0 {
			inc = names[1:]
		}
		sc.Files[n] = stressDocText(r, inc)
	}
	nops := r.rangeInt(6, 18)
	opened := map[int]bool{}
	for i := 0; i < nops; i++ {
		d := r.intn(ndocs)
		if !opened[d] {
			sc.Ops = append(sc.Ops, stressOp{Op: "open", Doc: d})
			opened[d] = true
			continue
		}
		k := r.intn(100)
		switch {
		case k < 30:
			var inc []string
			if sc.Root && d == 0 {
				inc = names[1:]
			}
			text := stressDocText(r, inc)
			sc.Ops = append(sc.Ops, stressOp{Op: "change", Doc: d, Text: text})
			if r.chance(60) { // a request right behind the change, on the first posting's account
				for li, l := range strings.Split(text, "\n") {
					if strings.HasPrefix(l, "    ") {
						sc.Ops = append(sc.Ops, stressOp{Op: pick(r, []string{"hover", "completion", "references"}), Doc: d, Line: li, Char: 8})
						break
					}
				}
			}
		case k < 36:
			sc.Ops = append(sc.Ops, stressOp{Op: "save", Doc: d})
		case k < 52:
			sc.Ops = append(sc.Ops, stressOp{Op: "config"})
			sc.Cfg = append(sc.Cfg, pick(r, []string{"hledger", "/usr/bin/hledger", "hledger-1.40", "/opt/h"}))
			sc.Delay = append(sc.Delay, r.rangeInt(0, 3000))
		default:
			op := pick(r, []string{"hover", "completion", "format", "symbols", "tokens", "references"})
			sc.Ops = append(sc.Ops, stressOp{Op: op, Doc: d, Line: r.rangeInt(0, 6), Char: r.rangeInt(0, 12)})
		}
	}
	// the Initialized notification also asks for the configuration once
	sc.Cfg = append([]string{"hledger"}, sc.Cfg...)
	sc.Delay = append([]int{0}, sc.Delay...)
	return sc
}

type stressClient struct {
	stubClient
	smu   sync.Mutex
	calls int
	sc    *stressScenario
}

func (c *stressClient) Configuration(context.Context, *protocol.ConfigurationParams) ([]interface{}, error) {
	c.smu.Lock()
	i := c.calls
	c.calls++
	c.smu.Unlock()
	path, delay := "hledger", 0
	if i < len(c.sc.Cfg) {
		path, delay = c.sc.Cfg[i], c.sc.Delay[i]
	}
	time.Sleep(time.Duration(delay) * time.Microsecond)
	return []interface{}{map[string]interface{}{"cli": map[string]interface{}{"path": path}, "limits": map[string]interface{}{"maxIncludeDepth": 40 + i%5}}}, nil
}

func fingerprint(dir string, v interface{}, err error) string {
	js, _ := json.Marshal(v)
	js = bytes.ReplaceAll(js, []byte(dir), []byte("$DIR")) // locations carry the temporary directory
	h := sha256.Sum256(append(js, []byte(fmt.Sprint(err))...))
	return hex.EncodeToString(h[:6])
}

// runStream plays the scenario; sequential = wait for the background work after every notification
func runStream(sc *stressScenario, sequential bool) (resp []string, hang bool) {
	dir, err := tempWorkspace(sc.Files)
	if err != nil {
		return nil, false
	}
	defer os.RemoveAll(dir)
	os.Unsetenv("LEDGER_FILE")
	os.Unsetenv("HLEDGER_JOURNAL")
	srv := server.NewServer()
	cl := &stressClient{sc: sc}
	srv.SetClient(cl)
	ctx := context.Background()
	params := &protocol.InitializeParams{Capabilities: protocol.ClientCapabilities{Workspace: &protocol.WorkspaceClientCapabilities{Configuration: true}}} //nolint:staticcheck
	if sc.Root {
		params.RootURI = fileURI(dir) //nolint:staticcheck
	}
	_, _ = srv.Initialize(ctx, params)
	base := runtime.NumGoroutine()
	_ = srv.Initialized(ctx, &protocol.InitializedParams{})
	if sequential {
		quiesce(base)
	}
	if !sequential {
		// slow background analyses down a little so that requests overtake them
		hook := func(u protocol.DocumentURI, content string) {
			time.Sleep(time.Duration(len(content)%7) * 300 * time.Microsecond)
		}
		server.VerifPublishHook.Store(&hook)
		defer server.VerifPublishHook.Store(nil)
	}
	var names []string
	for n := range sc.Files {
		names = append(names, n)
	}
	sort.Strings(names)
	if sc.Root { // main.journal first
		sort.Slice(names, func(i, j int) bool { return names[i] == "main.journal" || (names[j] != "main.journal" && names[i] < names[j]) })
	}
	cur := map[int]string{}
	version := int32(1)
	for _, op := range sc.Ops {
		if op.Doc >= len(names) {
			continue
		}
		u := fileURI(filepath.Join(dir, names[op.Doc]))
		td := protocol.TextDocumentIdentifier{URI: u}
		pos := protocol.TextDocumentPositionParams{TextDocument: td, Position: protocol.Position{Line: uint32(op.Line), Character: uint32(op.Char)}}
		note := true
		switch op.Op {
		case "open":
			cur[op.Doc] = sc.Files[names[op.Doc]]
			_ = srv.DidOpen(ctx, &protocol.DidOpenTextDocumentParams{TextDocument: protocol.TextDocumentItem{URI: u, Text: cur[op.Doc]}})
		case "change":
			version++
			cur[op.Doc] = op.Text
			_ = srv.DidChange(ctx, &protocol.DidChangeTextDocumentParams{TextDocument: protocol.VersionedTextDocumentIdentifier{TextDocumentIdentifier: td, Version: version},
				ContentChanges: []protocol.TextDocumentContentChangeEvent{{Text: op.Text}}})
		case "save":
			_ = srv.DidSave(ctx, &protocol.DidSaveTextDocumentParams{TextDocument: td})
		case "config":
			_ = srv.DidChangeConfiguration(ctx, &protocol.DidChangeConfigurationParams{})
		default:
			note = false
			var v interface{}
			var err error
			switch op.Op {
			case "hover":
				v, err = srv.Hover(ctx, &protocol.HoverParams{TextDocumentPositionParams: pos})
			case "completion":
				v, err = srv.Completion(ctx, &protocol.CompletionParams{TextDocumentPositionParams: pos})
			case "format":
				v, err = srv.Format(ctx, &protocol.DocumentFormattingParams{TextDocument: td})
			case "symbols":
				v, err = srv.DocumentSymbol(ctx, &protocol.DocumentSymbolParams{TextDocument: td})
			case "tokens":
				var t *protocol.SemanticTokens
				t, err = srv.SemanticTokensFull(ctx, &protocol.SemanticTokensParams{TextDocument: td})
				if t != nil {
					v = t.Data // result ids count requests, not state
				}
			case "references":
				v, err = srv.References(ctx, &protocol.ReferenceParams{TextDocumentPositionParams: pos, Context: protocol.ReferenceContext{IncludeDeclaration: true}})
			}
			resp = append(resp, op.Op+":"+fingerprint(dir, v, err))
		}
		if note && sequential {
			if !quiesce(base) {
				return resp, true
			}
		}
	}
	if !quiesce(base) {
		return resp, true
	}
	return resp, false
}

func runC14Child(o opts) error {
	r := newRng(o.seed)
	enc := json.NewEncoder(os.Stdout)
	for i := 0; i < o.n; i++ {
		sc := stressGen(r.fork())
		res := stressResult{ID: i}
		func() {
			defer func() {
				if p := recover(); p != nil {
					res.Crash = fmt.Sprint(p)
				}
			}()
			conc, hang := runStream(&sc, false)
			res.Requests = len(conc)
			if hang {
				res.Hang = true
				buf := make([]byte, 1<<16)
				n := runtime.Stack(buf, true)
				_ = os.WriteFile(filepath.Join(o.out, fmt.Sprintf("hang-%d-%d.txt", o.seed, i)), buf[:n], 0o644)
				return
			}
			seq, _ := runStream(&sc, true)
			for k := range conc {
				if k < len(seq) && conc[k] != seq[k] {
					kind := "root"
					if !sc.Root {
						kind = "noroot"
					}
					res.Mismatch = append(res.Mismatch, kind+":"+strings.SplitN(conc[k], ":", 2)[0])
				}
			}
		}()
		_ = enc.Encode(res)
		if res.Hang {
			break // leaked goroutines would disturb the next scenario
		}
	}
	return nil
}

var raceFrame = regexp.MustCompile(`(?m)^\s+github\.com/juev/hledger-lsp/internal/([^\s(]+(?:\([^)]*\))?[^\s(]*)\(`)

// raceSignatures: per report, the first hledger-lsp frame of each of the two stacks
func raceSignatures(log string) []string {
	var out []string
	seen := map[string]bool{}
	for _, rep := range strings.Split(log, "WARNING: DATA RACE")[1:] {
		if i := strings.Index(rep, "=================="); i >= 0 {
			rep = rep[:i]
		}
		var firsts []string
		for _, blk := range regexp.MustCompile(`(?m)^(?:Read|Write|Previous read|Previous write|Atomic|Previous atomic)[^\n]*\n`).Split(rep, -1)[1:] {
			if j := strings.Index(blk, "\n\n"); j >= 0 {
				blk = blk[:j]
			}
			if m := raceFrame.FindStringSubmatch(blk); m != nil {
				firsts = append(firsts, m[1])
			} else {
				firsts = append(firsts, "?")
			}
			if len(firsts) == 2 {
				break
			}
		}
		sort.Strings(firsts)
		sig := strings.Join(firsts, " | ")
		if !seen[sig] {
			seen[sig] = true
			out = append(out, sig)
		}
	}
	sort.Strings(out)
	return out
}

type c14RunCase struct {
	Kind      string   `json:"kind"`
	Seed      uint64   `json:"seed"`
	Scenarios int      `json:"scenarios"`
	Races     []string `json:"races"`
	Hang      bool     `json:"hang"`
	Crash     string   `json:"crash,omitempty"`
	Mismatch  []string `json:"mismatch"`
	Requests  int      `json:"requests"`
}

func c14Stress(o opts, st *stats, emit func(c interface{}, term string, nt bool)) error {
	hdir := os.Getenv("VERIF_HARNESS_DIR")
	if hdir == "" {
		hdir = "/verif/harness"
	}
	exe := filepath.Join(o.out, "hlrace")
	cmd := exec.Command("go", "build", "-race", "-tags", "verif", "-o", exe, ".")
	cmd.Dir = hdir
	if out, err := cmd.CombinedOutput(); err != nil {
		return fmt.Errorf("race build failed: %v\n%s", err, out)
	}
	batches, per := 8, 6
	if o.n > 0 {
		batches = o.n
	}
	if o.thorough {
		per = 40
	}
	type job struct {
		seed uint64
		c    c14RunCase
	}
	jobs := make([]job, batches)
	var wg sync.WaitGroup
	sem := make(chan struct{}, 8)
	for b := 0; b < batches; b++ {
		jobs[b].seed = o.seed*1000 + uint64(b)
		wg.Add(1)
		go func(b int) {
			defer wg.Done()
			sem <- struct{}{}
			defer func() { <-sem }()
			seed := jobs[b].seed
			logp := filepath.Join(o.out, fmt.Sprintf("race-%d", seed))
			c := exec.Command(exe, "-prop", "c14child", "-seed", fmt.Sprint(seed), "-n", fmt.Sprint(per), "-out", o.out)
			c.Env = append(os.Environ(), "GORACE=log_path="+logp+" halt_on_error=0 exitcode=0 history_size=3")
			var stdout bytes.Buffer
			c.Stdout = &stdout
			done := make(chan error, 1)
			_ = c.Start()
			go func() { done <- c.Wait() }()
			rc := c14RunCase{Kind: "stress", Seed: seed}
			select {
			case err := <-done:
				if err != nil {
					rc.Crash = err.Error()
				}
			case <-time.After(240 * time.Second):
				_ = c.Process.Kill()
				rc.Hang = true
			}
			for _, line := range strings.Split(stdout.String(), "\n") {
				var res stressResult
				if json.Unmarshal([]byte(line), &res) == nil && line != "" {
					rc.Scenarios++
					rc.Requests += res.Requests
					rc.Hang = rc.Hang || res.Hang
					if res.Crash != "" {
						rc.Crash = res.Crash
					}
					rc.Mismatch = append(rc.Mismatch, res.Mismatch...)
				}
			}
			logs, _ := filepath.Glob(logp + ".*")
			var all string
			for _, l := range logs {
				b, _ := os.ReadFile(l)
				all += string(b)
			}
			rc.Races = raceSignatures(all)
			if strings.Contains(all, "fatal error") && rc.Crash == "" {
				rc.Crash = "fatal error in race log"
			}
			jobs[b].c = rc
		}(b)
	}
	wg.Wait()
	for _, j := range jobs {
		c := j.c
		var races, mism []string
		for _, s := range c.Races {
			races = append(races, gBytes(s))
		}
		ms := map[string]bool{}
		for _, m := range c.Mismatch {
			ms[m] = true
		}
		var mk []string
		for m := range ms {
			mk = append(mk, m)
		}
		sort.Strings(mk)
		for _, m := range mk {
			mism = append(mism, gBytes(m))
		}
		emit(c, fmt.Sprintf("(RunCase %d %s %s %s %s)", c.Scenarios, gList(races), gBool(c.Hang), gBool(c.Crash != ""), gList(mism)), c.Scenarios > 0)
		st.count("case:stress-batch")
		st.count(fmt.Sprintf("stress:scenarios=%d", c.Scenarios))
		for _, s := range c.Races {
			st.count("race-report:" + s)
		}
		for _, m := range mk {
			st.count("response-differs-from-sequential:" + m)
		}
	}
	return nil
}
