package main

import (
	"fmt"
	"io"
	"os"

	"github.com/juev/hledger-lsp/internal/parser"
)

func init() { runners["dbgparse"] = runDbgParse }

// dbgparse: reads a journal from stdin, prints tokens and the parsed postings (debug aid)
func runDbgParse(o opts) error {
	data, _ := io.ReadAll(os.Stdin)
	lx := parser.NewLexer(string(data))
	for {
		t := lx.Next()
		fmt.Printf("%v(%q) ", t.Type, t.Value)
		if t.Type == parser.TokenEOF {
			break
		}
	}
	fmt.Println()
	j, errs := parser.Parse(string(data))
	for _, e := range errs {
		fmt.Printf("ERR %d:%d %s\n", e.Pos.Line, e.Pos.Column, e.Message)
	}
	for _, t := range j.Transactions {
		fmt.Printf("TX %q payee=%q note=%q code=%q\n", t.Description, t.Payee, t.Note, t.Code)
		for _, p := range t.Postings {
			fmt.Printf("  P acct=%q virt=%d", p.Account.Name, p.Virtual)
			if p.Amount != nil {
				fmt.Printf(" amt=%s raw=%q sym=%q", p.Amount.Quantity, p.Amount.RawQuantity, p.Amount.Commodity.Symbol)
			}
			if p.Cost != nil {
				fmt.Printf(" cost=%s %q total=%v", p.Cost.Amount.Quantity, p.Cost.Amount.Commodity.Symbol, p.Cost.IsTotal)
			}
			if p.BalanceAssertion != nil {
				fmt.Printf(" assert=%s %q", p.BalanceAssertion.Amount.Quantity, p.BalanceAssertion.Amount.Commodity.Symbol)
			}
			fmt.Printf(" comment=%q\n", p.Comment)
		}
	}
	return nil
}
