package main

import (
	"crypto/sha256"
	"encoding/hex"
	"encoding/json"
	"flag"
	"fmt"
	"os"
	"path/filepath"
	"sort"
)

// stats is what a run reports about itself; the orchestrator copies it into the evidence file.
type stats struct {
	Property    string         `json:"property"`
	Seed        uint64         `json:"seed"`
	Evaluations int            `json:"evaluations"`
	Distinct    int            `json:"distinct"`
	Nontrivial  int            `json:"distinct_nontrivial"`
	Rule        string         `json:"rule"`
	Dist        map[string]int `json:"distribution"`
	Samples     []string       `json:"samples"`
	ImplFail    []implFailure  `json:"impl_failures"` // crashes / hangs seen while running the implementation
	seen        map[string]bool
	seenNT      map[string]bool
}

type implFailure struct {
	Case   int    `json:"case"`
	What   string `json:"what"`
	Replay string `json:"replay"`
}

func newStats(prop string, seed uint64, rule string) *stats {
	return &stats{Property: prop, Seed: seed, Rule: rule, Dist: map[string]int{}, seen: map[string]bool{}, seenNT: map[string]bool{}}
}

func (s *stats) record(caseText string, nontrivial bool, sample string) {
	h := sha256.Sum256([]byte(caseText))
	k := hex.EncodeToString(h[:8])
	s.Evaluations++
	if !s.seen[k] {
		s.seen[k] = true
		s.Distinct++
	}
	if nontrivial && !s.seenNT[k] {
		s.seenNT[k] = true
		s.Nontrivial++
		if len(s.Samples) < 3 {
			s.Samples = append(s.Samples, sample)
		}
	}
}
func (s *stats) count(key string) { s.Dist[key]++ }

func (s *stats) write(dir string) error {
	b, err := json.MarshalIndent(s, "", " ")
	if err != nil {
		return err
	}
	return os.WriteFile(filepath.Join(dir, "stats_"+s.Property+".json"), b, 0o644)
}

type runner func(o opts) error

type opts struct {
	prop    string
	seed    uint64
	n       int
	out     string
	shards  int
	replay  string
	corpus  string
	thorough bool
}

var runners = map[string]runner{}

func main() {
	var o opts
	flag.StringVar(&o.prop, "prop", "", "property id")
	flag.Uint64Var(&o.seed, "seed", 1, "PRNG seed")
	flag.IntVar(&o.n, "n", 100, "number of generated cases")
	flag.StringVar(&o.out, "out", "", "output directory")
	flag.IntVar(&o.shards, "shards", 16, "number of .v shards")
	flag.StringVar(&o.replay, "replay", "", "replay file: run only this case")
	flag.StringVar(&o.corpus, "corpus", "", "corpus directory (cases run first)")
	flag.BoolVar(&o.thorough, "thorough", false, "thorough tier")
	flag.Parse()
	r, ok := runners[o.prop]
	if !ok {
		names := []string{}
		for k := range runners {
			names = append(names, k)
		}
		sort.Strings(names)
		fmt.Fprintf(os.Stderr, "unknown property %q; have %v\n", o.prop, names)
		os.Exit(2)
	}
	if o.out == "" {
		fmt.Fprintln(os.Stderr, "-out required")
		os.Exit(2)
	}
	if err := os.MkdirAll(o.out, 0o755); err != nil {
		fmt.Fprintln(os.Stderr, err)
		os.Exit(2)
	}
	if err := r(o); err != nil {
		fmt.Fprintln(os.Stderr, "harness error:", err)
		os.Exit(3)
	}
}

// caseFile stores the replayable form of every case of a run: id -> JSON text.
type caseStore struct {
	f *os.File
}

func newCaseStore(dir, prop string) (*caseStore, error) {
	f, err := os.Create(filepath.Join(dir, "cases_"+prop+".jsonl"))
	if err != nil {
		return nil, err
	}
	return &caseStore{f: f}, nil
}
func (c *caseStore) add(id int, v interface{}) {
	b, _ := json.Marshal(map[string]interface{}{"id": id, "case": v})
	c.f.Write(b)
	c.f.Write([]byte("\n"))
}
func (c *caseStore) close() { c.f.Close() }

// loadReplayCases reads cases (one JSON object per line with a "case" member) from a replay
// file or from every *.jsonl file of a corpus directory.
func loadCaseFiles(paths []string) ([]json.RawMessage, error) {
	var out []json.RawMessage
	for _, p := range paths {
		data, err := os.ReadFile(p)
		if err != nil {
			return nil, err
		}
		start := 0
		for i := 0; i <= len(data); i++ {
			if i == len(data) || data[i] == '\n' {
				line := data[start:i]
				start = i + 1
				if len(line) == 0 || line[0] == '#' {
					continue
				}
				var w struct {
					Case json.RawMessage `json:"case"`
				}
				if err := json.Unmarshal(line, &w); err != nil {
					return nil, fmt.Errorf("%s: %v", p, err)
				}
				if w.Case != nil {
					out = append(out, w.Case)
				}
			}
		}
	}
	return out, nil
}

func corpusFiles(o opts) []string {
	if o.replay != "" {
		return []string{o.replay}
	}
	if o.corpus == "" {
		return nil
	}
	m, _ := filepath.Glob(filepath.Join(o.corpus, "*.jsonl"))
	sort.Strings(m)
	return m
}
