package main

import (
	"bytes"
	"encoding/json"
	"fmt"
	"math/big"
	"strings"
)

// jsonToGallina converts a JSON text into a term of the Coq type Model.Settings.json, keeping
// key order and duplicate keys (the model applies "last one wins" itself) and giving every
// number as the exact rational value of the float64 that encoding/json decodes it to.
func jsonToGallina(text string) (string, error) {
	dec := json.NewDecoder(bytes.NewReader([]byte(text)))
	dec.UseNumber()
	t, err := jsonValue(dec)
	if err != nil {
		return "", err
	}
	return t, nil
}

func jsonValue(dec *json.Decoder) (string, error) {
	tok, err := dec.Token()
	if err != nil {
		return "", err
	}
	return jsonFromToken(dec, tok)
}

func jsonFromToken(dec *json.Decoder, tok json.Token) (string, error) {
	switch v := tok.(type) {
	case nil:
		return "JNull", nil
	case bool:
		return "(JBool " + gBool(v) + ")", nil
	case json.Number:
		f, err := v.Float64()
		if err != nil {
			return "", err
		}
		r := new(big.Rat)
		if r.SetFloat64(f) == nil {
			return "", fmt.Errorf("non-finite number %s", v)
		}
		num := r.Num().String()
		if strings.HasPrefix(num, "-") {
			num = "(" + num + ")"
		}
		return fmt.Sprintf("(JNum %s%%Z %s%%positive)", num, r.Denom().String()), nil
	case string:
		return "(JStr " + gBytes(v) + ")", nil
	case json.Delim:
		switch v {
		case '[':
			var items []string
			for dec.More() {
				it, err := jsonValue(dec)
				if err != nil {
					return "", err
				}
				items = append(items, it)
			}
			if _, err := dec.Token(); err != nil {
				return "", err
			}
			return "(JArr " + gList(items) + ")", nil
		case '{':
			var items []string
			for dec.More() {
				kt, err := dec.Token()
				if err != nil {
					return "", err
				}
				k, ok := kt.(string)
				if !ok {
					return "", fmt.Errorf("object key is not a string")
				}
				it, err := jsonValue(dec)
				if err != nil {
					return "", err
				}
				items = append(items, "("+gBytes(k)+", "+it+")")
			}
			if _, err := dec.Token(); err != nil {
				return "", err
			}
			return "(JObj " + gList(items) + ")", nil
		}
	}
	return "", fmt.Errorf("unexpected token %v", tok)
}
