package main

import (
	"encoding/json"
	"fmt"
	"sort"
	"strings"
)

func init() { runners["C14"] = runC14; runners["dbglocks"] = runDbgLocks }

// dbglocks: prints the extracted access table (debug aid)
func runDbgLocks(o opts) error {
	x, err := runExtractor()
	if err != nil {
		return err
	}
	t := buildTable(x)
	fmt.Printf("functions %d accesses %d edges %d kinds %v\n", t.Functions, t.Accesses, len(x.edges), t.Kinds)
	for _, l := range sortedLocs(t) {
		fmt.Println("LOC", l)
		for _, r := range t.Rows[l] {
			rw := "R"
			if r.Write {
				rw = "W"
			}
			fmt.Printf("   %-28s %s {%s}  %s\n", t.Kinds[r.Kind], rw, r.Held, r.Where)
		}
	}
	for _, b := range t.Blocks {
		fmt.Printf("BLOCK %s %s {%s} %s\n", t.Kinds[b.Kind], b.Call, b.Held, b.Where)
	}
	for _, e := range t.Order {
		fmt.Printf("ORDER %s -> %s\n", e[0], e[1])
	}
	for _, l := range t.Leaks {
		fmt.Printf("LEAK %s %s %s\n", l.Fn, l.Lock, l.Pos)
	}
	var esc []string
	for f, l := range x.escapes {
		esc = append(esc, f+" => "+l)
	}
	sort.Strings(esc)
	for _, e := range esc {
		fmt.Println("ESCAPE", e)
	}
	return nil
}

func sortedLocs(t *xTable) []string {
	var locs []string
	for l := range t.Rows {
		locs = append(locs, l)
	}
	sort.Strings(locs)
	return locs
}

// lock numbers: a topological order of the nesting edges when there is one (Coq checks the
// consequence: every edge goes from a smaller to a larger number)
func lockNumbers(t *xTable) map[string]int {
	names := map[string]bool{}
	for _, rs := range t.Rows {
		for _, r := range rs {
			for _, l := range uncanon(r.Held) {
				names[l.Name] = true
			}
		}
	}
	for _, b := range t.Blocks {
		for _, l := range uncanon(b.Held) {
			names[l.Name] = true
		}
	}
	indeg := map[string]int{}
	for _, e := range t.Order {
		names[e[0]], names[e[1]] = true, true
		if e[0] != e[1] {
			indeg[e[1]]++
		}
	}
	var all []string
	for n := range names {
		all = append(all, n)
	}
	sort.Strings(all)
	num := map[string]int{}
	for len(num) < len(all) {
		progressed := false
		for _, n := range all {
			if _, done := num[n]; done || indeg[n] > 0 {
				continue
			}
			num[n] = len(num) + 1
			progressed = true
			for _, e := range t.Order {
				if e[0] == n && e[0] != e[1] {
					indeg[e[1]]--
				}
			}
		}
		if !progressed { // a cycle: number the rest anyhow
			for _, n := range all {
				if _, done := num[n]; !done {
					num[n] = len(num) + 1
				}
			}
		}
	}
	return num
}

func gHeld(h string, num map[string]int) string {
	var out []string
	for _, l := range uncanon(h) {
		m := "MR"
		if l.Write {
			m = "MW"
		}
		out = append(out, fmt.Sprintf("(%d, %s)", num[l.Name], m))
	}
	return gList(out)
}

type c14LocCase struct {
	Kind string   `json:"kind"`
	Loc  string   `json:"loc,omitempty"`
	Rows []string `json:"rows,omitempty"`
}

// what the translator must still see for the table to mean anything
func c14Canary(t *xTable, loc string) bool {
	has := func(pred func(r xRow) bool) bool {
		for _, r := range t.Rows[loc] {
			if pred(r) {
				return true
			}
		}
		return false
	}
	bg := func(r xRow) bool { return r.Kind >= 2 }
	switch loc {
	case "Server.settings":
		return has(func(r xRow) bool { return bg(r) && r.Write && strings.Contains(r.Held, "Server.settingsMu:W") }) &&
			has(func(r xRow) bool { return r.Kind == kindDisp && !r.Write && strings.Contains(r.Held, "Server.settingsMu:R") })
	case "Workspace.resolved/deep":
		return has(func(r xRow) bool { return r.Kind == kindDisp && r.Write && strings.Contains(r.Held, "Workspace.mu:W") }) &&
			has(func(r xRow) bool { return r.Kind == kindDisp && !r.Write && r.Held == "" })
	case "Loader.cache/deep":
		return has(func(r xRow) bool { return bg(r) && r.Write && strings.Contains(r.Held, "Loader.mu:W") })
	case "semanticTokensCache.cache/deep":
		return has(func(r xRow) bool { return r.Write && strings.Contains(r.Held, "semanticTokensCache.mu:W") })
	case "Server.cliClient":
		return has(func(r xRow) bool { return bg(r) && r.Write })
	case "Workspace.cachedAccounts/deep":
		return has(func(r xRow) bool { return bg(r) && !r.Write })
	}
	return true
}

var c14Required = []string{"Server.settings", "Workspace.resolved/deep", "Loader.cache/deep", "semanticTokensCache.cache/deep", "Server.cliClient", "Workspace.cachedAccounts/deep", "Loader.limits", "Workspace.index/deep"}

func runC14(o opts) error {
	st := newStats("C14", o.seed, "cases = (a) one per shared location found by the translator in internal/server, internal/workspace, internal/include: its access rows (thread kind, read/write, locks held incl. the callers') -- Coq decides the lockset discipline for it; (b) the blocking client requests with the locks held across them; (c) the lock nesting edges; (d) race-detector stress runs: batches of scenarios (1..3 documents in a workspace, bursts of changes and configuration changes with a slow client, requests in between) executed by a -race build of the harness, with the responses compared with a quiesced sequential replay; non-trivial = the case carries at least one row / one scenario")
	w, err := newShardWriter(o.out, o.prop, o.shards, "ccase")
	if err != nil {
		return err
	}
	cs, err := newCaseStore(o.out, o.prop)
	if err != nil {
		return err
	}
	defer cs.close()
	x, err := runExtractor()
	if err != nil {
		return err
	}
	t := buildTable(x)
	num := lockNumbers(t)
	st.count(fmt.Sprintf("translator:functions=%d", t.Functions))
	st.count(fmt.Sprintf("translator:accesses=%d", t.Accesses))
	st.count(fmt.Sprintf("translator:locations=%d", len(t.Rows)))
	st.count(fmt.Sprintf("translator:thread-kinds=%s", strings.Join(t.Kinds, "|")))
	id := 0
	emit := func(c interface{}, term string, nt bool) {
		js, _ := json.Marshal(c)
		w.add(id, term)
		st.record(string(js), nt, string(js))
		cs.add(id, c)
		id++
	}
	present := map[string]bool{}
	for li, loc := range sortedLocs(t) {
		present[loc] = true
		var rows, desc []string
		for _, r := range t.Rows[loc] {
			rows = append(rows, fmt.Sprintf("(mkRow %d %d %s %s)", r.Kind, li, gBool(r.Write), gHeld(r.Held, num)))
			rw := "R"
			if r.Write {
				rw = "W"
			}
			desc = append(desc, fmt.Sprintf("%s %s {%s} %s", t.Kinds[r.Kind], rw, r.Held, r.Where))
		}
		canary := c14Canary(t, loc) && t.Functions >= 150
		emit(c14LocCase{Kind: "location", Loc: loc, Rows: desc}, fmt.Sprintf("(LocCase %s %s %s)", gBytes(loc), gList(rows), gBool(canary)), len(rows) > 0)
		st.count("case:location")
	}
	for _, req := range c14Required {
		if !present[req] {
			emit(c14LocCase{Kind: "missing-location", Loc: req}, fmt.Sprintf("(LocCase %s [] false)", gBytes(req)), false)
		}
	}
	var brows, bdesc []string
	for _, b := range t.Blocks {
		brows = append(brows, fmt.Sprintf("(mkBRow %d 0 %s)", b.Kind, gHeld(b.Held, num)))
		bdesc = append(bdesc, fmt.Sprintf("%s %s {%s} %s", t.Kinds[b.Kind], b.Call, b.Held, b.Where))
	}
	emit(c14LocCase{Kind: "blocking-requests", Rows: bdesc}, fmt.Sprintf("(BlockCase %s %s)", gList(brows), gBool(len(brows) > 0)), true)
	var edges, edesc []string
	for _, e := range t.Order {
		edges = append(edges, fmt.Sprintf("(%d, %d)", num[e[0]], num[e[1]]))
		edesc = append(edesc, e[0]+" -> "+e[1])
	}
	emit(c14LocCase{Kind: "lock-order", Rows: edesc}, fmt.Sprintf("(OrderCase %s)", gList(edges)), true)
	var leaks []string
	for _, l := range t.Leaks {
		leaks = append(leaks, fmt.Sprintf("%s still holds %s at %s", l.Fn, l.Lock, l.Pos))
	}
	emit(c14LocCase{Kind: "locks-held-at-return", Rows: leaks}, fmt.Sprintf("(LeakCase %d)", len(leaks)), true)
	st.count("case:locks-held-at-return")
	st.count("case:blocking-requests")
	st.count("case:lock-order")
	if err := c14Stress(o, st, emit); err != nil {
		return err
	}
	if err := w.close(); err != nil {
		return err
	}
	return st.write(o.out)
}
