package main

import (
	"context"
	"crypto/sha256"
	"encoding/hex"
	"encoding/json"
	"fmt"
	"runtime"
	"sync"
	"time"

	"go.lsp.dev/protocol"

	"github.com/juev/hledger-lsp/internal/server"
)

func init() { runners["C13"] = runC13 }

type c13Op struct {
	Op      string `json:"op"` // change | complete | close
	URI     int    `json:"uri,omitempty"`
	Content int    `json:"content,omitempty"`
	Index   int    `json:"index,omitempty"` // complete: index into the pending list
}
type c13Case struct {
	Ops []c13Op `json:"ops"`
	// gate at the CLIENT instead of at the publish point: every publishDiagnostics notification is
	// withheld by the client stub and released in the order given by Release (index into the calls
	// waiting at that moment, modulo their number); the window between "is this still the current
	// version?" and the delivery of the notification is then under the harness's control
	ClientGate bool  `json:"client_gate,omitempty"`
	Release    []int `json:"release,omitempty"`
}

// contents with pairwise different diagnostics (and two with equal ones)
var c13Contents = []string{
	"2024-01-01 ok\n    a:b  1 USD\n    c:d  -1 USD\n",
	"2024-01-01 off\n    a:b  1 USD\n    c:d  -2 USD\n",
	"2024-01-01 two missing\n    a:b\n    c:d\n",
	"account a:b\n2024-01-01 undeclared\n    a:b  1 USD\n    x:y  -1 USD\n",
	"2024-01-01 three\n    a:b  1 USD\n    c:d  1 USD\n    e:f  -5 USD\n", // one commodity only: the multi-commodity message order is C15's subject
	"2024-01-01 ok again\n    e:f  5 EUR\n    g:h  -5 EUR\n",
	"2024-13-45 bad date\n    a:b  1\n",
	"",
}

type publishGate struct {
	mu      sync.Mutex
	waiting []chan struct{}
}

func (g *publishGate) hook(protocol.DocumentURI, string) {
	ch := make(chan struct{})
	g.mu.Lock()
	g.waiting = append(g.waiting, ch)
	g.mu.Unlock()
	<-ch
}
func (g *publishGate) count() int {
	g.mu.Lock()
	defer g.mu.Unlock()
	return len(g.waiting)
}
func (g *publishGate) release(i int) bool {
	g.mu.Lock()
	if i < 0 || i >= len(g.waiting) {
		g.mu.Unlock()
		return false
	}
	ch := g.waiting[i]
	g.waiting = append(g.waiting[:i:i], g.waiting[i+1:]...)
	g.mu.Unlock()
	close(ch)
	return true
}

func diagFingerprint(d []protocol.Diagnostic) string {
	b, _ := json.Marshal(d)
	h := sha256.Sum256(b)
	return hex.EncodeToString(h[:8])
}

// c13Classes computes, on an ungated fresh server, the diagnostics class of every content.
func c13Classes() ([]int, map[string]int, error) {
	classes := map[string]int{}
	var out []int
	for _, c := range c13Contents {
		srv, stub, base := newTestServer()
		u := c01URI(0)
		_ = srv.DidOpen(context.Background(), &protocol.DidOpenTextDocumentParams{TextDocument: protocol.TextDocumentItem{URI: u, Text: c}})
		if !quiesce(base) {
			return nil, nil, fmt.Errorf("analysis did not finish")
		}
		p, ok := stub.lastPublished(u)
		if !ok {
			return nil, nil, fmt.Errorf("nothing published for content %q", c)
		}
		fp := diagFingerprint(p.Diagnostics)
		if _, seen := classes[fp]; !seen {
			classes[fp] = len(classes)
		}
		out = append(out, classes[fp])
	}
	return out, classes, nil
}

var c13Mu sync.Mutex // the hook is process-global

func c13RunClientGate(c c13Case, classOf []int, classes map[string]int) (string, error) {
	c13Mu.Lock()
	defer c13Mu.Unlock()
	srv, stub, base := newTestServer()
	stub.mu.Lock()
	stub.hold = true
	stub.mu.Unlock()
	ctx := context.Background()
	open := map[int]int{}
	version := 1
	releaseOne := func(i int) bool {
		stub.mu.Lock()
		n := len(stub.waiting)
		if n == 0 {
			stub.mu.Unlock()
			return false
		}
		h := stub.waiting[i%n]
		stub.waiting = append(stub.waiting[:i%n:i%n], stub.waiting[i%n+1:]...)
		stub.mu.Unlock()
		close(h.release)
		return true
	}
	settle := func() { // let the goroutines run until they block (at the client or on the lock) or finish
		last, same := -1, 0
		for k := 0; k < 400 && same < 25; k++ {
			time.Sleep(200 * time.Microsecond)
			n := stub.waitingCount()*1000 + runtime.NumGoroutine()
			if n == last {
				same++
			} else {
				same, last = 0, n
			}
		}
	}
	for _, op := range c.Ops {
		if op.Op != "change" {
			continue
		}
		u := c01URI(op.URI)
		text := c13Contents[op.Content]
		if _, ok := open[op.URI]; !ok {
			_ = srv.DidOpen(ctx, &protocol.DidOpenTextDocumentParams{TextDocument: protocol.TextDocumentItem{URI: u, Text: text, Version: 1}})
		} else {
			version++
			_ = srv.DidChange(ctx, &protocol.DidChangeTextDocumentParams{
				TextDocument:   protocol.VersionedTextDocumentIdentifier{TextDocumentIdentifier: protocol.TextDocumentIdentifier{URI: u}, Version: int32(version)},
				ContentChanges: []protocol.TextDocumentContentChangeEvent{{Text: text}},
			})
		}
		open[op.URI] = op.Content
		settle()
	}
	for k := 0; k < 64; k++ {
		idx := 0
		if k < len(c.Release) {
			idx = c.Release[k]
		}
		if !releaseOne(idx) {
			if runtime.NumGoroutine() <= base {
				break
			}
		}
		settle()
	}
	stub.mu.Lock()
	stub.hold = false
	for _, h := range stub.waiting {
		close(h.release)
	}
	stub.waiting = nil
	stub.mu.Unlock()
	if !quiesce(base) {
		return "", fmt.Errorf("background tasks did not finish")
	}
	stub.mu.Lock()
	var obs []string
	for _, p := range stub.published {
		ui := -1
		for i := 0; i < 3; i++ {
			if p.URI == c01URI(i) {
				ui = i
			}
		}
		cl, ok := classes[diagFingerprint(p.Diagnostics)]
		if !ok {
			cl = 777777
		}
		obs = append(obs, fmt.Sprintf("(%d, %d)", ui, cl))
	}
	stub.mu.Unlock()
	var fin []string
	for ui := 0; ui < 3; ui++ {
		if k, ok := open[ui]; ok {
			fin = append(fin, fmt.Sprintf("(%d, %d)", ui, k))
		}
	}
	var fp []string
	for _, k := range classOf {
		fp = append(fp, fmt.Sprint(k))
	}
	return fmt.Sprintf("(mkCase %s [] %s %s true)", gList(fp), gList(obs), gList(fin)), nil
}

func c13Run(c c13Case, classOf []int, classes map[string]int) (string, error) {
	if c.ClientGate {
		return c13RunClientGate(c, classOf, classes)
	}
	c13Mu.Lock()
	defer c13Mu.Unlock()
	gate := &publishGate{}
	h := gate.hook
	server.VerifPublishHook.Store(&h)
	defer server.VerifPublishHook.Store(nil)
	srv, stub, base := newTestServer()
	ctx := context.Background()
	open := map[int]int{}
	version := 1
	var evs []string
	pendingN := 0
	waitArrive := func(n int) error {
		if !waitUntil(func() bool { return gate.count() == n }, 20*time.Second) {
			return fmt.Errorf("task did not reach its publish point")
		}
		return nil
	}
	waitDone := func(n int) error {
		if !waitUntil(func() bool { return runtime.NumGoroutine() <= base+n }, 20*time.Second) {
			return fmt.Errorf("released task did not finish")
		}
		return nil
	}
	for _, op := range c.Ops {
		u := c01URI(op.URI)
		switch op.Op {
		case "change":
			text := c13Contents[op.Content]
			if _, ok := open[op.URI]; !ok {
				_ = srv.DidOpen(ctx, &protocol.DidOpenTextDocumentParams{TextDocument: protocol.TextDocumentItem{URI: u, Text: text, Version: 1}})
			} else {
				version++
				_ = srv.DidChange(ctx, &protocol.DidChangeTextDocumentParams{
					TextDocument:   protocol.VersionedTextDocumentIdentifier{TextDocumentIdentifier: protocol.TextDocumentIdentifier{URI: u}, Version: int32(version)},
					ContentChanges: []protocol.TextDocumentContentChangeEvent{{Text: text}},
				})
			}
			open[op.URI] = op.Content
			pendingN++
			if err := waitArrive(pendingN); err != nil {
				return "", err
			}
			evs = append(evs, fmt.Sprintf("(PChange %d %d)", op.URI, op.Content))
		case "complete":
			if !gate.release(op.Index) {
				evs = append(evs, fmt.Sprintf("(PComplete %d%%nat)", op.Index))
				continue
			}
			pendingN--
			if err := waitDone(pendingN); err != nil {
				return "", err
			}
			evs = append(evs, fmt.Sprintf("(PComplete %d%%nat)", op.Index))
		case "close":
			_ = srv.DidClose(ctx, &protocol.DidCloseTextDocumentParams{TextDocument: protocol.TextDocumentIdentifier{URI: u}})
			delete(open, op.URI)
			evs = append(evs, fmt.Sprintf("(PClose %d)", op.URI))
		}
	}
	if pendingN != 0 {
		return "", fmt.Errorf("case leaves %d task(s) pending", pendingN)
	}
	stub.mu.Lock()
	var obs []string
	for _, p := range stub.published {
		ui := -1
		for i := 0; i < 3; i++ {
			if p.URI == c01URI(i) {
				ui = i
			}
		}
		cl, ok := classes[diagFingerprint(p.Diagnostics)]
		if !ok {
			cl = 777777 // diagnostics that belong to none of the contents
		}
		obs = append(obs, fmt.Sprintf("(%d, %d)", ui, cl))
	}
	stub.mu.Unlock()
	var fin []string
	for ui := 0; ui < 3; ui++ {
		if t, ok := srv.GetDocument(c01URI(ui)); ok {
			k := -1
			for i, c := range c13Contents {
				if c == t && open[ui] == i {
					k = i
				}
			}
			if k < 0 {
				k = 888888
			}
			fin = append(fin, fmt.Sprintf("(%d, %d)", ui, k))
		}
	}
	var fp []string
	for _, k := range classOf {
		fp = append(fp, fmt.Sprint(k))
	}
	return fmt.Sprintf("(mkCase %s %s %s %s false)", gList(fp), gList(evs), gList(obs), gList(fin)), nil
}

// permutations of 0..n-1 as sequences of "complete index" operations on a shrinking pending list
func c13Perms(n int) [][]int {
	var out [][]int
	var rec func(rem []int, acc []int)
	rec = func(rem []int, acc []int) {
		if len(rem) == 0 {
			out = append(out, append([]int(nil), acc...))
			return
		}
		for i := range rem {
			rest := append(append([]int(nil), rem[:i]...), rem[i+1:]...)
			rec(rest, append(acc, i))
		}
	}
	idx := make([]int, n)
	rec(idx, nil)
	return out
}

func runC13(o opts) error {
	st := newStats("C13", o.seed, "case = trace of changes (didOpen/didChange with one of 8 contents) on up to 3 documents, closes, and publish-point releases chosen by the harness; exhaustive part: every assignment of a burst of 2..4 changes to two documents x every release permutation; random part: interleaved traces with bursts up to 6; client-gated part: bursts of 2..3 changes with every notification withheld by the client stub and released in every order (the window between the currency check and the delivery); non-trivial = some release is out of issue order; distinct by hash")
	classOf, classes, err := c13Classes()
	if err != nil {
		return err
	}
	w, err := newShardWriter(o.out, "C13", o.shards, "case")
	if err != nil {
		return err
	}
	cs, err := newCaseStore(o.out, "C13")
	if err != nil {
		return err
	}
	defer cs.close()
	id := 0
	runOne := func(c c13Case, nt bool) error {
		term, err := c13Run(c, classOf, classes)
		if err != nil {
			js, _ := json.Marshal(c)
			st.ImplFail = append(st.ImplFail, implFailure{Case: id, What: err.Error(), Replay: string(js)})
		} else {
			w.add(id, term)
		}
		js, _ := json.Marshal(c)
		st.record(string(js), nt, string(js))
		cs.add(id, c)
		id++
		return nil
	}
	raws, err := loadCaseFiles(corpusFiles(o))
	if err != nil {
		return err
	}
	for _, raw := range raws {
		var c c13Case
		if err := json.Unmarshal(raw, &c); err != nil {
			return err
		}
		st.count("source:corpus")
		if err := runOne(c, true); err != nil {
			return err
		}
	}
	if o.replay == "" {
		r := newRng(o.seed)
		// exhaustive: bursts of 2..4 (5 in the thorough tier) on two documents, every assignment, every permutation
		maxBurst := 4
		if o.thorough {
			maxBurst = 5
		}
		for n := 2; n <= maxBurst; n++ {
			for assign := 0; assign < 1<<n; assign++ {
				for _, perm := range c13Perms(n) {
					var c c13Case
					for i := 0; i < n; i++ {
						c.Ops = append(c.Ops, c13Op{Op: "change", URI: (assign >> i) & 1, Content: (i + assign + r.intn(2)*3) % len(c13Contents)})
					}
					nt := false
					for _, k := range perm {
						if k != 0 {
							nt = true
						}
						c.Ops = append(c.Ops, c13Op{Op: "complete", Index: k})
					}
					st.count(fmt.Sprintf("source:exhaustive-burst-%d", n))
					if err := runOne(c, nt); err != nil {
						return err
					}
				}
			}
		}
		// the same bursts with the notifications withheld at the client, every release order
		for n := 2; n <= 3; n++ {
			for assign := 0; assign < 1<<n; assign++ {
				for _, perm := range c13Perms(n) {
					c := c13Case{ClientGate: true, Release: perm}
					for i := 0; i < n; i++ {
						c.Ops = append(c.Ops, c13Op{Op: "change", URI: (assign >> i) & 1, Content: (i*3 + assign) % (len(c13Contents) - 1)})
					}
					st.count(fmt.Sprintf("source:client-gated-burst-%d", n))
					if err := runOne(c, true); err != nil {
						return err
					}
				}
			}
		}
		// random interleaved traces
		for i := 0; i < o.n; i++ {
			rr := r.fork()
			var c c13Case
			pending := 0
			nt := false
			steps := rr.rangeInt(3, 10)
			openSet := map[int]bool{}
			for s := 0; s < steps; s++ {
				k := rr.intn(100)
				switch {
				case k < 55 || pending == 0:
					u := rr.intn(3)
					if rr.chance(50) {
						u = 0
					}
					c.Ops = append(c.Ops, c13Op{Op: "change", URI: u, Content: rr.intn(len(c13Contents))})
					openSet[u] = true
					pending++
				case k < 92:
					j := rr.intn(pending)
					if j != 0 {
						nt = true
					}
					c.Ops = append(c.Ops, c13Op{Op: "complete", Index: j})
					pending--
				default:
					u := rr.intn(3)
					if openSet[u] {
						c.Ops = append(c.Ops, c13Op{Op: "close", URI: u})
						delete(openSet, u)
						st.count("op:close")
					}
				}
			}
			for pending > 0 {
				j := rr.intn(pending)
				if j != 0 {
					nt = true
				}
				c.Ops = append(c.Ops, c13Op{Op: "complete", Index: j})
				pending--
			}
			st.count("source:random-trace")
			if err := runOne(c, nt); err != nil {
				return err
			}
		}
	}
	if err := w.close(); err != nil {
		return err
	}
	return st.write(o.out)
}
